#!/usr/bin/env python3
"""seedeval.py <seed-id> <property> <patch.diff> <demo_test.go> <demo-dir-in-repo> <run-regex> [extra props...]

Confirms a seeded regression in a scratch worktree (builds, suite passes, demo fails with / passes without), then applies it to
/repo, runs the quick checks of the target property (and extra ones), reverts /repo, and files everything under /verif/seeded/<id>/.
"""
import json, os, re, shutil, subprocess, sys, time

ENV = dict(os.environ, GOFLAGS="-mod=mod", GOPROXY="off", GOSUMDB="off", GOTOOLCHAIN="local")


def sh(cmd, cwd=None, timeout=1800):
    p = subprocess.run(cmd, shell=True, cwd=cwd, env=ENV, stdout=subprocess.PIPE, stderr=subprocess.STDOUT, text=True, timeout=timeout)
    return p.returncode, p.stdout


def main():
    sid, prop, patch, demo, ddir, rx = sys.argv[1:7]
    extra = sys.argv[7:]
    meta = dict(id=sid, property=prop, when=time.strftime("%Y-%m-%d %H:%M:%S"))
    wt = "/tmp/seedeval-%s" % sid
    sh("git -C /repo worktree remove --force %s" % wt)
    rc, out = sh("git -C /repo worktree add -q --detach %s HEAD" % wt)
    assert rc == 0, out
    try:
        demo_dst = os.path.join(wt, ddir, "zz_seed_demo_test.go")
        shutil.copy(demo, demo_dst)
        rc0, out0 = sh("go test %s -vet=off -count=1 -run '%s' ./%s" % (os.environ.get("SEED_GOTEST_FLAGS", ""), rx, ddir), cwd=wt)
        meta["demo_passes_without_change"] = rc0 == 0
        rc, out = sh("git apply %s" % patch, cwd=wt)
        assert rc == 0, "patch does not apply: " + out
        rc1, out1 = sh("go test %s -vet=off -count=1 -run '%s' ./%s" % (os.environ.get("SEED_GOTEST_FLAGS", ""), rx, ddir), cwd=wt)
        meta["demo_fails_with_change"] = rc1 != 0
        os.unlink(demo_dst)
        rc2, out2 = sh("go build ./... && go test -vet=off -count=1 ./...", cwd=wt)
        meta["builds_and_suite_passes_with_change"] = rc2 == 0
        if rc2 != 0:
            meta["suite_output_tail"] = out2[-1500:]
        meta["demo_output_with_change_tail"] = out1[-800:]
    finally:
        sh("git -C /repo worktree remove --force %s" % wt)
    confirmed = meta["demo_passes_without_change"] and meta["demo_fails_with_change"] and meta["builds_and_suite_passes_with_change"]
    meta["confirmed"] = confirmed
    results = {}
    if confirmed and not os.environ.get("SEED_CONFIRM_ONLY"):
        rc, out = sh("git -C /repo status --porcelain")
        assert out.strip() == "", "/repo not clean: " + out
        rc, out = sh("git -C /repo apply %s" % patch)
        assert rc == 0, out
        try:
            for p in [prop] + extra:
                t = time.time()
                rc, out = sh("bin/check %s quick" % p, cwd="/verif", timeout=3600)
                viol = [l for l in out.splitlines() if l.startswith("VIOLATION")]
                keys = [l.strip() for l in out.splitlines() if l.strip().startswith("violation key=")]
                results[p] = dict(exit=rc, violations=len(viol), keys=[k[:300] for k in keys][:8], wall_s=round(time.time() - t),
                                  infra=[l for l in out.splitlines() if "INFRA" in l][:2])
        finally:
            sh("git -C /repo checkout -- . && git -C /repo clean -fdq")
    meta["checks"] = results
    meta["detected_by"] = sorted(p for p, r in results.items() if r["exit"] == 1)
    if os.environ.get("SEED_CONFIRM_ONLY"):
        print(json.dumps({k: meta[k] for k in ("id", "confirmed", "demo_passes_without_change", "demo_fails_with_change", "builds_and_suite_passes_with_change")}))
        return
    d = "/verif/seeded/%s" % sid
    os.makedirs(d, exist_ok=True)
    shutil.copy(patch, os.path.join(d, "patch.diff"))
    shutil.copy(demo, os.path.join(d, "demo_test.go.txt"))
    meta["demo"] = dict(file="demo_test.go.txt (copy into %s/ as *_test.go)" % ddir, run="go test %s -vet=off -count=1 -run '%s' ./%s" % (os.environ.get("SEED_GOTEST_FLAGS", ""), rx, ddir))
    json.dump(meta, open(os.path.join(d, "meta.json"), "w"), indent=1)
    print(json.dumps(dict(id=sid, confirmed=confirmed, detected_by=meta["detected_by"], checks={p: (r["exit"], r["keys"][:2]) for p, r in results.items()}), indent=1))


main()
