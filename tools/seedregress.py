#!/usr/bin/env python3
"""seedregress.py [ids...]: apply each filed seeded change to /repo, run the quick check of its property, expect a VIOLATION, revert.
Prints one line per seed; exit 1 if any filed seed is no longer detected by its target check."""
import json, os, subprocess, sys, time

ENV = dict(os.environ, GOFLAGS="-mod=mod", GOPROXY="off", GOSUMDB="off", GOTOOLCHAIN="local")


def sh(cmd, cwd=None, timeout=3600):
    p = subprocess.run(cmd, shell=True, cwd=cwd, env=ENV, stdout=subprocess.PIPE, stderr=subprocess.STDOUT, text=True, timeout=timeout)
    return p.returncode, p.stdout


def main():
    ids = sys.argv[1:] or sorted(os.listdir("/verif/seeded"))
    rc, out = sh("git -C /repo status --porcelain")
    assert out.strip() == "", "/repo not clean"
    bad = []
    for sid in ids:
        d = "/verif/seeded/" + sid
        m = json.load(open(d + "/meta.json"))
        prop = m.get("expected_check", m["property"])
        if prop == "none":
            print(sid, "skipped (recorded as not detected)")
            continue
        rc, out = sh("git -C /repo apply %s/patch.diff" % d)
        if rc != 0:
            print(sid, "PATCH-DOES-NOT-APPLY", out.strip()[:100])
            bad.append(sid)
            continue
        try:
            t = time.time()
            rc, out = sh("bin/check %s quick" % prop, cwd="/verif")
        finally:
            sh("git -C /repo checkout -- . && git -C /repo clean -fdq")
        ok = rc == 1 and "VIOLATION property=%s" % prop in out
        print(sid, "detected" if ok else "NOT-DETECTED(rc=%d)" % rc, "%ds" % (time.time() - t), flush=True)
        if not ok:
            bad.append(sid)
    print("not detected:", bad)
    return 1 if bad else 0


sys.exit(main())
