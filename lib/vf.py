"""Shared machinery for /verif/bin/check.

One run = one property, one tier.  The run
  * rebuilds the Go harness from /repo's current working tree (build tag `verif`),
  * runs TLC on the specification (exhaustive / generator / trace-validation configs),
  * drives the real library through the harness,
  * turns every reproduced spec-vs-code disagreement into a *candidate*, classifies it with a
    stable key, applies /verif/KNOWN_FINDINGS.json, writes /verif/evidence/<ID>.json,
  * exits 0 / 1 (+ VIOLATION line) / 2 (infrastructure problem, never a violation).
"""
import hashlib
import json
import os
import re
import shutil
import subprocess
import sys
import tempfile
import threading
import time

VERIF = os.path.dirname(os.path.dirname(os.path.abspath(__file__)))
REPO = os.environ.get("VERIF_REPO", "/repo")
SPEC = os.path.join(VERIF, "spec")
HARNESS = os.path.join(VERIF, "harness")
EVID = os.path.join(VERIF, "evidence")
REPLAYS = os.path.join(VERIF, "out", "replays")
KNOWN = os.path.join(VERIF, "KNOWN_FINDINGS.json")

_lock = threading.Lock()

GOENV = dict(GOFLAGS="-mod=mod", GOPROXY="off", GOSUMDB="off", GOTOOLCHAIN="local")


class Infra(Exception):
    """Tool failure, timeout, calibration failure ... -> exit 2, never a violation."""


def log(*a):
    print(*a, file=sys.stderr, flush=True)


class Ctx:
    def __init__(self, prop, tier, seed):
        self.prop = prop
        self.tier = tier
        self.seed = seed
        self.t0 = time.time()
        self.tmp = tempfile.mkdtemp(prefix="verif-%s-" % prop)
        self.cov = dict(states=0, transitions=0, traces_validated_against_impl=0,
                        evaluations=0, distinct_nontrivial=0, samples=[], rule="",
                        tlc_runs=[], stages=[])
        self.assumptions = []
        self.candidates = []   # dicts: key, what, case
        self._vh = None
        self._vh_race = None
        self._specdir = None
        self._seen = set()

    # ------------------------------------------------------------------ bookkeeping
    @property
    def quick(self):
        return self.tier == "quick"

    def pick(self, q, t):
        return q if self.quick else t

    def sample(self, s, limit=6):
        if len(self.cov["samples"]) < limit:
            self.cov["samples"].append(s)

    def stage(self, name, **kw):
        d = dict(name=name, **kw)
        self.cov["stages"].append(d)
        log("[%s] stage %s %s" % (self.prop, name, json.dumps(kw, default=str)[:300]))

    def candidate(self, key, what, case):
        """A disagreement between the real code and the specification (already observed on the
        real code).  `key` identifies the failing input class / call site."""
        self.candidates.append(dict(key=key, what=what, case=case))

    def count_cases(self, n_eval, distinct_keys):
        self.cov["evaluations"] += n_eval
        for k in distinct_keys:
            self._seen.add(k)
        self.cov["distinct_nontrivial"] = len(self._seen)

    def cleanup(self):
        shutil.rmtree(self.tmp, ignore_errors=True)

    # ------------------------------------------------------------------ go harness
    def vh(self, race=False):
        """Build (once per run) the harness against /repo's working tree with hooks enabled."""
        attr = "_vh_race" if race else "_vh"
        if getattr(self, attr):
            return getattr(self, attr)
        out = os.path.join(self.tmp, "vh-race" if race else "vh")
        env = dict(os.environ, **GOENV)
        env["GOCACHE"] = env.get("GOCACHE", os.path.expanduser("~/.cache/go-build"))
        # go.sum must be the repository's (offline: no sumdb)
        shutil.copyfile(os.path.join(REPO, "go.sum"), os.path.join(HARNESS, "go.sum"))
        cmd = ["go", "build", "-tags", "verif"] + (["-race"] if race else []) + ["-o", out, "./cmd/vh"]
        t = time.time()
        p = subprocess.run(cmd, cwd=HARNESS, env=env, stdout=subprocess.PIPE, stderr=subprocess.STDOUT, text=True)
        if p.returncode != 0:
            raise Infra("harness build failed:\n" + p.stdout[-4000:])
        log("[%s] harness built%s in %.1fs" % (self.prop, " (race)" if race else "", time.time() - t))
        setattr(self, attr, out)
        return out

    def run_vh(self, args, race=False, timeout=1800, env=None, check=True, stdin=None, as_limit_gb=None):
        e = dict(os.environ, **GOENV)
        e["VERIF_SEED"] = str(self.seed)
        if env:
            e.update(env)
        t = time.time()
        pre = None
        if as_limit_gb:
            import resource

            def pre():
                lim = int(as_limit_gb * (1 << 30))
                resource.setrlimit(resource.RLIMIT_AS, (lim, lim))
        try:
            p = subprocess.run([self.vh(race)] + [str(a) for a in args], cwd=self.tmp, env=e, input=stdin, preexec_fn=pre,
                               stdout=subprocess.PIPE, stderr=subprocess.PIPE, text=True, timeout=timeout)
        except subprocess.TimeoutExpired:
            raise Infra("harness timeout: vh %s" % " ".join(map(str, args)))
        if check and p.returncode != 0:
            raise Infra("harness failed (%d): vh %s\n%s" % (p.returncode, " ".join(map(str, args)), (p.stderr or "")[-4000:]))
        p.wall = time.time() - t
        return p

    # ------------------------------------------------------------------ TLC
    def specdir(self):
        if not self._specdir:
            d = os.path.join(self.tmp, "spec")
            shutil.copytree(SPEC, d)
            self._specdir = d
        return self._specdir

    def apalache(self, module, inv, timeout=300):
        """Symbolic (unbounded over its integer parameters) check of a small typed lemma module with Apalache.
        A counterexample means the specification library contradicts itself: Infra, never a property verdict.
        If the tool cannot run here, that is recorded and the check goes on."""
        d = self.specdir()
        outdir = os.path.join(self.tmp, "apalache-out-%s" % module.replace(".tla", ""))
        logf = os.path.join(self.tmp, "apalache-%s.log" % module.replace(".tla", ""))
        try:
            # own process group, output to a file: on a timeout the whole group (wrapper script + JVM) is killed and
            # nothing can keep a pipe open
            with open(logf, "w") as lf:
                proc = subprocess.Popen(["apalache-mc", "check", "--inv=" + inv, "--length=1", "--out-dir=" + outdir, module], cwd=d,
                                        stdout=lf, stderr=subprocess.STDOUT, stdin=subprocess.DEVNULL, start_new_session=True)
                try:
                    proc.wait(timeout=timeout)
                except subprocess.TimeoutExpired:
                    import signal
                    try:
                        os.killpg(proc.pid, signal.SIGKILL)
                    except OSError:
                        pass
                    proc.wait(timeout=30)
                    raise
        except (OSError, subprocess.TimeoutExpired) as e:
            self.cov.setdefault("apalache", []).append(dict(module=module, inv=inv, result="skipped: %s" % type(e).__name__))
            return None

        class _P:
            stdout = open(logf, errors="replace").read()
        p = _P
        ok = "The outcome is: NoError" in p.stdout
        if "The outcome is: Error" in p.stdout:
            raise Infra("Apalache refutes %s!%s (specification library inconsistent): %s" % (module, inv, p.stdout[-600:]))
        self.cov.setdefault("apalache", []).append(dict(module=module, inv=inv, result="proved for all parameter values" if ok else "skipped: no verdict"))
        log("[%s] Apalache %s!%s: %s" % (self.prop, module, inv, "NoError" if ok else "no verdict"))
        return ok

    def tlc(self, module, cfg, workers=16, heap="8g", env=None, timeout=900, simulate=None,
            depth=None, extra=None, allow_violation=False, deadlock=None, count=True):
        """Run TLC; returns dict(rc, out, generated, distinct, emitted[list of json objects],
        errors[list of str], violated[str|None])."""
        d = self.specdir()
        with _lock:
            self._tlcn = getattr(self, "_tlcn", 0) + 1
            n = self._tlcn
        meta = os.path.join(self.tmp, "meta%d" % n)
        jtmp = os.path.join(self.tmp, "jtmp")       # TLC leaves an empty tlc-* directory per run in java.io.tmpdir
        os.makedirs(jtmp, exist_ok=True)
        cmd = ["java", "-XX:+UseParallelGC", "-Xmx" + heap, "-Xss64m", "-Djava.io.tmpdir=" + jtmp]
        if workers == 1:
            cmd += ["-XX:ParallelGCThreads=2"]
        cmd += ["-cp", "/opt/veriftools/tla/tla2tools.jar:/opt/veriftools/tla/CommunityModules-deps.jar",
                "tlc2.TLC", "-workers", str(workers), "-metadir", meta, "-config", cfg, "-seed", str(self.seed % (2**31))]
        if deadlock is False:
            cmd += ["-deadlock"]
        if simulate:
            cmd += ["-simulate", simulate]
        if depth:
            cmd += ["-depth", str(depth)]
        if extra:
            cmd += list(extra)
        cmd += [module]
        e = dict(os.environ)
        e.pop("JAVA_TOOL_OPTIONS", None)
        e["VERIF_SEED"] = str(self.seed)
        if env:
            e.update({k: str(v) for k, v in env.items()})
        t = time.time()
        outpath = os.path.join(self.tmp, "tlc%d.out" % n)
        with open(outpath, "w") as fo:
            try:
                p = subprocess.run(cmd, cwd=d, env=e, stdout=fo, stderr=subprocess.STDOUT, timeout=timeout)
                rc = p.returncode
            except subprocess.TimeoutExpired:
                subprocess.run(["pkill", "-f", meta], check=False)
                raise Infra("TLC timeout after %ds: %s %s" % (timeout, module, cfg))
        wall = time.time() - t
        shutil.rmtree(meta, ignore_errors=True)
        res = parse_tlc(outpath)
        res.update(rc=rc, wall=wall, module=module, cfg=cfg, outpath=outpath)
        self.cov["tlc_runs"].append(dict(module=module, cfg=cfg, generated=res["generated"],
                                         distinct=res["distinct"], wall_s=round(wall, 1), rc=rc,
                                         emitted=len(res["emitted"])))
        if count:
            with _lock:
                self.cov["states"] += res["distinct"]
                self.cov["transitions"] += res["generated"]
        log("[%s] TLC %s/%s rc=%d gen=%d distinct=%d emitted=%d %.1fs" %
            (self.prop, module, cfg, rc, res["generated"], res["distinct"], len(res["emitted"]), wall))
        if rc != 0 and not (allow_violation and res["violated"]):
            tail = open(outpath).read()[-3000:]
            raise Infra("TLC failed rc=%d on %s/%s\n%s" % (rc, module, cfg, tail))
        return res

    def validate_trace(self, module, cfg, trace_path, n_events, timeout=1800, env=None, heap="3g"):
        """Trace validation: TLC (one worker) consumes the NDJSON trace.  The trace specs never
        block: an event the specification does not allow is *rejected* (printed as a REJECT
        record, the rest of that trace is skipped up to the next reset) and the run goes on, so
        every trace in the file is examined.  Acceptance of the file = all lines consumed
        (high-water mark printed by the POSTCONDITION) and no REJECT."""
        e = {"TRACE": trace_path}
        if env:
            e.update(env)
        res = self.tlc(module, cfg, workers=1, heap=heap, env=e, timeout=timeout, count=False)
        consumed = None
        for o in res["emitted"]:
            if isinstance(o, dict) and o.get("k") == "consumed":
                consumed = o["n"]
        if consumed is None or consumed != n_events:
            raise Infra("trace validation did not consume the whole trace (%s of %d) %s/%s; see %s" %
                        (consumed, n_events, module, cfg, res["outpath"]))
        rejects = [o for o in res["emitted"] if isinstance(o, dict) and o.get("k") == "reject"]
        res["rejects"] = rejects
        return res


def validate_events(ctx, module, cfg, events, shards=8, timeout=1800, env=None, heap="3g", resets=None, obligations=None):
    """Split `events` into shards (cut only at indices listed in `resets` when given, i.e. at
    trace boundaries), validate the shards in parallel (one single-worker TLC each) and return
    the list of (event_index, why) rejects with indices into `events`."""
    from concurrent.futures import ThreadPoolExecutor
    n = len(events)
    if n == 0:
        return []
    workers = max(1, min(shards, n))
    # thorough: many more pieces than workers (load balance), and pieces small enough for the 3 GB heap of a
    # single-worker TLC (a piece of more than ~4 000 events with long byte strings makes the JVM thrash)
    if ctx.tier == "thorough" and n > 20000:
        shards = max(shards * 6, n // 4000)
    shards = max(1, min(shards, n))
    cuts = [0]
    for k in range(1, shards):
        c = (n * k) // shards
        if resets is not None:
            later = [r for r in resets if r >= c]
            if not later:
                break
            c = later[0]
        if c > cuts[-1] and c < n:
            cuts.append(c)
    cuts.append(n)
    ctx.specdir()

    def one(j):
        a, b = cuts[j], cuts[j + 1]
        path = os.path.join(ctx.tmp, "shard-%s-%d-%d.ndjson" % (module.replace(".tla", ""), len(ctx.cov["tlc_runs"]), j))
        write_ndjson(path, events[a:b])
        res = ctx.validate_trace(module, cfg, path, b - a, timeout=timeout, env=env, heap=heap)
        os.unlink(path)
        if obligations is not None:
            for o in res["emitted"]:
                if isinstance(o, dict) and o.get("k") == "hash":
                    o["ref"] = a + o["ref"] - 1 if isinstance(o.get("ref"), int) else o.get("ref")
                    obligations.append(o)
        return [(a + r["i"] - 1, r["why"]) for r in res["rejects"]]
    with ThreadPoolExecutor(max_workers=workers) as ex:
        parts = list(ex.map(one, range(len(cuts) - 1)))
    return [x for part in parts for x in part]


_re_states = re.compile(r"^(\d+) states generated, (\d+) distinct states found")
_re_sim = re.compile(r"^The number of states generated: (\d+)")


def parse_tlc(path):
    gen = dist = 0
    emitted, errors = [], []
    violated = None
    with open(path, errors="replace") as f:
        for line in f:
            line = line.rstrip("\n")
            if line.startswith('"{') or line.startswith('"['):
                try:
                    emitted.append(json.loads(json.loads(line)))
                    continue
                except Exception:
                    pass
            m = _re_states.match(line)
            if m:
                gen, dist = int(m.group(1)), int(m.group(2))
                continue
            m = _re_sim.match(line)
            if m:
                gen = int(m.group(1))
                dist = max(dist, gen)
                continue
            if line.startswith("Error:"):
                errors.append(line)
                m2 = re.match(r"Error: Invariant (\S+) is violated", line)
                if m2:
                    violated = m2.group(1)
                elif "is violated" in line and not violated:
                    violated = line
    return dict(generated=gen, distinct=dist, emitted=emitted, errors=errors, violated=violated)


# ---------------------------------------------------------------------- trace file helpers
def write_ndjson(path, events):
    with open(path, "w") as f:
        for ev in events:
            f.write(json.dumps(ev, separators=(",", ":")) + "\n")


def read_ndjson(path):
    out = []
    with open(path) as f:
        for line in f:
            line = line.strip()
            if line:
                out.append(json.loads(line))
    return out


def hx(b):
    """int list -> hex"""
    return bytes(b).hex()


def sha256d(b):
    return hashlib.sha256(hashlib.sha256(bytes(b)).digest()).digest()


def check_hash_oracle(entries):
    """Independent recomputation (python hashlib) of every hash the trace treats as an oracle
    value.  entries: dicts kind,in(list of ints),out(list of ints).  Returns list of bad ones."""
    bad = []
    for e in entries:
        data = bytes(e["in"])
        k = e["kind"]
        if k == "sha256d":
            h = sha256d(data)
        elif k == "sha256":
            h = hashlib.sha256(data).digest()
        elif k == "sha1":
            h = hashlib.sha1(data).digest()
        elif k == "ripemd160":
            h = hashlib.new("ripemd160", data).digest()
        elif k == "hash160":
            h = hashlib.new("ripemd160", hashlib.sha256(data).digest()).digest()
        elif k == "sha256d4":
            h = sha256d(data)[:4]
        else:
            raise Infra("unknown hash kind " + k)
        if list(h) != list(e["out"]):
            bad.append(e)
    return bad


# ---------------------------------------------------------------------- findings / evidence
def load_known():
    if not os.path.exists(KNOWN):
        return []
    return json.load(open(KNOWN)).get("findings", [])


def finish(ctx, level="model_checking"):
    known = {(k["property"], k["key"]): k for k in load_known() if k.get("status") == "known"}
    viol = []
    kf_printed = set()
    for c in ctx.candidates:
        k = (ctx.prop, c["key"])
        if k in known:
            if k not in kf_printed:
                kf_printed.add(k)
                print("KNOWN-FINDING: property=%s %s [%s]" % (ctx.prop, known[k]["what"], c["key"]))
        else:
            viol.append(c)
    rc = 0
    seenk = set()
    for c in viol:
        if c["key"] in seenk:
            continue
        seenk.add(c["key"])
        os.makedirs(os.path.join(REPLAYS, ctx.prop), exist_ok=True)
        h = hashlib.sha1(json.dumps(c["case"], sort_keys=True, default=str).encode()).hexdigest()[:12]
        path = os.path.join(REPLAYS, ctx.prop, "%s-%s.json" % (re.sub(r"[^A-Za-z0-9_.-]", "_", c["key"])[:60], h))
        with open(path, "w") as f:
            json.dump(dict(property=ctx.prop, key=c["key"], what=c["what"], case=c["case"]), f, default=str)
        print("VIOLATION property=%s replay=%s" % (ctx.prop, path))
        log("  violation key=%s what=%s" % (c["key"], c["what"]))
        rc = 1
    cov = ctx.cov
    cov["known_findings_hit"] = sorted(k[1] for k in kf_printed)
    if not cov["samples"]:
        cov["samples"] = ["(no sample recorded)"]
    ev = dict(property_id=ctx.prop, tier=ctx.tier, seed=ctx.seed, level=level, coverage=cov,
              assumptions=ctx.assumptions, wall_s=round(time.time() - ctx.t0, 1), violations=len(seenk))
    # X.. = specification coverage beyond the listed properties: evidence kept apart
    evdir = EVID if not ctx.prop.startswith("X") else os.path.join(VERIF, "evidence_ext")
    os.makedirs(evdir, exist_ok=True)
    with open(os.path.join(evdir, ctx.prop + ".json"), "w") as f:
        json.dump(ev, f, indent=1, default=str)
    return rc
