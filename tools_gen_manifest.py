#!/usr/bin/env python3
"""Regenerates MANIFEST.json from the table below (one source of truth for the registered checks)."""
import json, os
V = os.path.dirname(os.path.abspath(__file__))
props = {json.loads(l)["id"]: json.loads(l) for l in open(os.path.join(V, "properties.jsonl"))}

CHECKS = {
 "C01": dict(design="6/C01", technique="TLA+ spec TxWire.tla (serialiser + parser with marker detection): exhaustive TLC model of codec sessions and of a byte-fed parser, every model case replayed on the real code, trace validation (Trace_TxWire) of recorded Bytes/ExtendedBytes/TxID/Clone and of every decoding entry point",
             text="TLC exhausts round trip, canonicity, prefix-freedom, truncation and list parsing on model transactions with lengths/counts on the 252/253 boundary and on all byte strings over a marker/varint alphabet up to a bound; the real codec is then bound to the same specification: every model case and thousands of generated, non-minimal, streamed, truncated and corpus inputs are executed and each result (acceptance, consumed bytes, fields, both re-serialisations, txid) is judged by TLC.",
             note="Trusted: TLC, TxWire.tla as the definition of the format (marker rule mirrors Tx.ReadFrom), python hashlib for txid hashes."),
 "C02": dict(design="6/C02", technique="TLA+ spec SigHash.tla (symbolic FORKID preimage, calibrated on 311 node vectors on every run): exhaustive TLC model over shapes x indices x all 256 hash types with structural invariants, every model case replayed on CalcInputPreimage/CalcInputSignatureHash, trace validation with hash obligations checked by hashlib",
             text="TLC enumerates every shape/index/hash-type combination of the model and checks the zeroing rules as invariants; each combination and thousands of random transactions are executed on the real code and the returned preimage is matched byte-for-byte against the specification by TLC; embedded hashes and the digest are oracle obligations.",
             note="Trusted: TLC, SigHash.tla (calibrated against node-generated vectors, which calibrates the spec not go-bt), python hashlib."),
 "C03": dict(design="6/C03", technique="TLA+ spec SigHash.tla (legacy preimage incl. SINGLE constant, calibrated on 290 node vectors on every run): exhaustive TLC model, model cases replayed on CalcInputPreimageLegacy/CalcInputSignatureHash, trace validation with hash obligations",
             text="As C02 for the legacy algorithm: blanking, NONE/SINGLE truncation with sequence zeroing, ANYONECANPAY isolation, the SINGLE out-of-range constant, argument errors and purity, all judged by TLC on every model case and on random transactions.",
             note="Trusted: TLC, SigHash.tla (calibrated against node vectors whose script code has no OP_CODESEPARATOR byte), python hashlib."),
 "C05": dict(design="6/C05", technique="TLA+ spec ScriptVM.tla (BSV EvalScript/VerifyScript as a state machine, BigNum.tla arithmetic, ScriptTok.tla tokeniser), calibrated on the node's script vectors on every run: exhaustive TLC runs over generated program families (every program emitted and replayed on the real engine) + step-by-step trace validation (Trace_VM) of engine runs recorded through the public debugger API",
             text="TLC model-checks the interpreter specification over exhaustive opcode x edge-operand tables, control-flow skeletons, shift tables and two-script programs in both eras (totality, termination measure, limits), and every one of those programs plus node vectors, mutated vectors and random programs is run on the real engine; after each instruction both stacks, and finally the verdict, must be the specification's. Bounded refinement check of the code against a model-checked, node-calibrated specification.",
             note="Trusted: TLC; ScriptVM.tla as calibrated against the node's expected verdicts (1 233 vectors without signature opcodes); python hashlib for hash-opcode results (oracle obligations); operands above 64 bytes and items above 100 000 bytes are outside the enumerated model (trace-validated only / reported as unmodelled); signature opcodes are C06."),
 "C07": dict(design="6/C07", technique="TLA+ spec ScriptVM.tla: TLC checks totality (Total) and the termination measure on the program families; Trace_VM judges crash-isolated runs of the real engine on arbitrary byte strings, all flag words, odd transaction contexts and three debugger modes (outcome in {ok, err}, step bound)",
             text="Totality and termination are invariants / action properties of the model-checked interpreter specification; the real engine is then run on exhaustive short byte strings, random and mutated programs, signature/locktime opcodes behind arbitrary stacks (absurd counts included) and incomplete contexts, in child-process isolation with an address-space limit; any outcome other than a value or an error, or more steps than tokens, is an event no specification action explains.",
             note="Trusted: TLC, the intent-file attribution of a process death, the step limit used to detect non-termination; stack contents are additionally validated where ScriptVM applies (no signature opcodes)."),
 "C08": dict(design="6/C08", technique="TLA+ spec ScriptVM.tla (stack items are values, so aliasing is impossible in the model): TLC enumerates provenance x transformer x tail programs (family alias), the real engine runs each and Trace_VM compares every item of both stacks after every instruction; caller-held scripts and tx bytes compared before/after every execution",
             text="Exhaustive enumeration by TLC of the copy/transform combinations the property quantifies over, replayed on the real engine with per-instruction comparison of all stack items against the value-semantics specification, plus byte-for-byte comparison of caller-owned buffers around every recorded execution.",
             note="Trusted: TLC, the deep-copied snapshots of the public debugger API as observation of the stacks."),
 "C19": dict(design="6/C19", technique="TLA+ specs DebugLifecycle.tla (callback-order automaton) and ScriptVM.tla: each program is run without, with a recording and with a scribbling debugger; Trace_VM requires equal verdict/error, identical snapshots and callback streams, lifecycle acceptance, and snapshots related by single ScriptVM steps",
             text="The documented lifecycle is an explicit automaton; TLC accepts or rejects every recorded callback stream, checks that consecutive step snapshots are one specification step apart, and that neither attaching a debugger nor overwriting every snapshot it receives changes verdict, error, snapshots or callback stream, over node vectors, TLC-enumerated families and random programs.",
             note="Trusted: TLC; the automaton tolerates exactly the undocumented but harmless stack callbacks listed in DebugLifecycle.tla (alt-stack clearing, P2SH stack swap, final pop, a failed pop without AfterStackPop)."),
 "C09": dict(design="6/C09", technique="TLA+ spec TxWire.tla parser + Trace_TxWire.TotalOK: trace validation of every decoding entry point on TLC-fed byte strings, random/truncated/bit-flipped inputs and crafted huge length/count fields, in a crash-isolated harness with allocation measurement",
             text="The parser specification defines the only outcomes (value or error) and the consumed-bytes bound; TLC judges every recorded decode call of the real code (outcome, used <= len, measured allocation <= 64*len+256KiB). Panics and process deaths are events no action explains. Conformance of the code to a model-checked parser on enumerated adversarial inputs.",
             note="Trusted: TLC, runtime.MemStats.TotalAlloc as the allocation sensor (measurement judged by the trace spec, not modelled), RLIMIT_AS 6 GiB + intent file to attribute process death."),
 "C17": dict(design="6/C17", technique="TLA+ spec BIP276.tla: exhaustive TLC model of encode/corrupt/decode sessions + TLC-generated cases replayed on the real code + trace validation (Trace_BIP276) of recorded Encode/Decode/ValidateAddress calls",
             text="TLC exhausts the session model (all records over boundary field values, every single-character corruption) for round trip, layout and rejection; every model case and 10^3..10^5 enumerated real calls are then judged by the same specification through trace validation. Bounded model checking of the design plus conformance of the code to it on the enumerated inputs.",
             note="Trusted: TLC, the BIP276 layout as written in BIP276.tla, python hashlib for the checksum oracle; SHA-256d treated as an uninterpreted function."),
}
NOT_YET = "check not built yet in this session (specification module planned in DESIGN.md section 6); will be claimed once its TLA+ module and trace binding exist"

m = dict(version=1,
         setup_cmd="cd /verif && bin/setup",
         hooks=dict(guard="verif", enable="go build -tags verif (the harness in /verif/harness is always built with this tag against /repo's working tree)",
                    baseline_off_cmd="cd /repo && go test -vet=off -count=1 ./...", source_commits=[], add_only=True),
         engines=[dict(name="tlc-exhaustive", path="spec/MC_*.tla", serves_properties=sorted(CHECKS), kind_free_text="TLC exhaustive model checking of the specification with small constants"),
                  dict(name="tlc-generate+replay", path="spec/MC_*_gen.cfg + harness/cmd/vh", serves_properties=sorted(CHECKS), kind_free_text="TLC enumerates model behaviours as JSON cases, the Go harness replays them on the real library"),
                  dict(name="record+tlc-trace-validation", path="spec/Trace_*.tla + harness/cmd/vh", serves_properties=sorted(CHECKS), kind_free_text="the Go harness records real executions as NDJSON, TLC validates every event against the specification")],
         checks=[], not_applicable=[],
         notes="bin/check <ID> <quick|thorough>; exit 2 = infrastructure problem (never a violation). Known findings: KNOWN_FINDINGS.json.")
for pid in sorted(props):
    if pid in CHECKS:
        c = CHECKS[pid]
        m["checks"].append(dict(property_id=pid, quick_cmd="bin/check %s quick" % pid, thorough_cmd="bin/check %s thorough" % pid,
                                evidence_file="/verif/evidence/%s.json" % pid, replay_cmd_template="bin/check %s --replay {path}" % pid,
                                engine="tlc-exhaustive + tlc-generate+replay + record+tlc-trace-validation",
                                level_claimed=dict(category=c.get("category", "model_checking"), text=c["text"], design_ref="DESIGN.md " + c["design"]),
                                level_note=c["note"], technique=c["technique"]))
    else:
        m["not_applicable"].append(dict(property_id=pid, reason=NOT_YET))
json.dump(m, open(os.path.join(V, "MANIFEST.json"), "w"), indent=1)
print("checks:", [c["property_id"] for c in m["checks"]])
