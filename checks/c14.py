"""C14 - script inspection is total and classifies by the standard templates."""
import os
import random

from lib import vf

LEVEL = "model_checking"


def classify(e, why):
    r = e["r"]
    if r["panics"]:
        fn = r["panics"][0].split(":")[0]
        if "modifies the script" in r["panics"][0]:
            return "query-modifies-script:" + fn, "inspection query %s changes the bytes of the script it inspects" % fn
        return "panic:" + fn, "inspection query %s panics (%s)" % (fn, r["panics"][0][:100])
    tt = why["tt"]
    if tt != "none" and r["type"] != tt:
        return "template-%s-reported-%s" % (tt, r["type"]), "a script instantiating the %s template is reported as %s" % (tt, r["type"])
    if r["type"] == "pubkeyhash" and not why["p2pkh"]:
        return "non-template-reported-pubkeyhash", "a script that is not the 25-byte template is reported pubkeyhash"
    if r["type"] == "nulldata" and not why["data"]:
        return "non-data-reported-nulldata", "a script not starting OP_RETURN / OP_FALSE OP_RETURN is reported nulldata"
    if not why["wf"] and (r["type"] in ("pubkeyhash", "pubkey", "multisig", "pubkeyhashinscription") or r["isP2PK"] or r["isMulti"] or r["isInscr"]):
        return "undecodable-reported-keybearing", "an undecodable script is reported as a key-bearing type (%s)" % r["type"]
    return "predicate", "an Is* predicate / PublicKeyHash disagrees with the template definition"


def judge(ctx, events):
    rejects = vf.validate_events(ctx, "Trace_Class.tla", "Trace_Class.cfg", events, shards=12)
    for i, why in rejects:
        e = events[i]
        key, what = classify(e, why)
        ctx.candidate(key, what, dict(event=dict(s=e["s"]), summary=dict(script=bytes(e["s"]).hex(), r=e["r"], why=why)))


def run(ctx):
    ctx.cov["rule"] = ("inspect = ScriptType, IsP2PKH/IsP2PK/IsP2SH/IsData/IsMultiSigOut/IsP2PKHInscription/IsInscribed, PublicKeyHash, Addresses, ToASM, "
                       "ParseInscription, MinPushSize and json.Marshal of NodeJSON on one script (each call guarded separately); inputs: every template "
                       "instance and every single-byte replacement / truncation / deletion of it (TLC, exhaustive), all 0..1-byte scripts, 2-byte scripts "
                       "(sampled in quick, all 65,536 in thorough), random scripts over a template alphabet, random bytes; judged by ScriptClass!Contract; "
                       "distinct = script bytes")
    r = ctx.tlc("MC_ScriptClass.tla", "MC_ScriptClass.cfg")
    cases = [o for o in r["emitted"] if o.get("k") == "case"]
    ctx.cov["tlc_generated_cases"] = ctx.cov["tlc_generated_cases_replayed"] = len(cases)
    cpath = os.path.join(ctx.tmp, "c14cases.ndjson")
    vf.write_ndjson(cpath, cases)
    out = os.path.join(ctx.tmp, "c14.ndjson")
    ctx.run_vh(["inspect", "-cases", cpath, "-out", out, "-n", ctx.pick(2000, 400000), "-two", ctx.pick(4000, 65536)])
    events = vf.read_ndjson(out)
    os.unlink(out)
    judge(ctx, events)
    ctx.cov["traces_validated_against_impl"] += len(events)
    ctx.count_cases(len(events), {bytes(e["s"]).hex() for e in events})
    types = {}
    for e in events:
        types[e["r"]["type"]] = types.get(e["r"]["type"], 0) + 1
    ctx.cov["reported_types"] = types
    for e in events[:1] + events[len(events) // 3:len(events) // 3 + 2]:
        ctx.sample(dict(script=bytes(e["s"]).hex()[:120], type=e["r"]["type"]))


def replay(ctx, case):
    cpath = os.path.join(ctx.tmp, "one.ndjson")
    vf.write_ndjson(cpath, [dict(s=case["case"]["event"]["s"])])
    out = os.path.join(ctx.tmp, "one-out.ndjson")
    ctx.run_vh(["inspect", "-cases", cpath, "-out", out, "-only"])
    judge(ctx, vf.read_ndjson(out))
