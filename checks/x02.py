"""X02 - (extension, not a listed property) the fee-quote store is linearizable.

FeeStore.tla is the sequential specification of FeeQuotes / FeeQuote (miners -> quotes, pointer sharing
through AddMiner, fees, expiry, JSON snapshot / replacement).  MC_FeeStore explores all sequential call
sequences over a menu (invariants; emitted for step-by-step replay); concurrent histories of the real
objects (goroutines with invocation / response stamps from a global atomic counter) must be linearizable
with respect to FeeStore!Apply - decided by TLC on Trace_FeeLin (search over the orders real time allows)."""
import os

from lib import vf

LEVEL = "model_checking"


def run(ctx):
    ctx.cov["rule"] = ("seq = every call sequence of MC_FeeStore (depth 3 quick / 4 thorough) and random sequential sequences replayed on real "
                       "FeeQuotes/FeeQuote objects: each reply must be FeeStore!Apply's; conc = histories of G goroutines x L calls on shared objects "
                       "(unique values per write, torn values recognisable): accepted iff TLC finds an order consistent with real time in which every "
                       "reply is the specified one (linearizability); distinct = (history)")
    ctx.assumptions += ["invocation/response stamps come from one atomic counter incremented immediately before the call and after its return"]
    r = ctx.tlc("MC_FeeStore.tla", ctx.pick("MC_FeeStore.cfg", "MC_FeeStore_t.cfg"))
    cases = [o for o in r["emitted"] if o.get("k") == "seq"]
    ctx.cov["tlc_generated_cases"] = len(cases)
    import random
    if len(cases) > ctx.pick(3000, 60000):
        cases = random.Random(ctx.seed).sample(cases, ctx.pick(3000, 60000))
    ctx.cov["tlc_generated_cases_replayed"] = len(cases)
    cpath = os.path.join(ctx.tmp, "fs-cases.ndjson")
    vf.write_ndjson(cpath, cases)
    events = []
    for g, l, n in ctx.pick([(3, 5, 150), (4, 4, 100), (2, 8, 100)], [(3, 5, 8000), (4, 5, 6000), (2, 10, 6000), (5, 4, 3000), (8, 3, 1500), (3, 8, 2000)]):
        out = os.path.join(ctx.tmp, "fs-%d-%d.ndjson" % (g, l))
        first = not events
        ctx.run_vh(["feestore", "-out", out, "-n", n, "-g", g, "-len", l, "-nseq", ctx.pick(300, 5000) if first else 0] +
                   (["-cases", cpath] if first else []), env={"VERIF_SEED": str(ctx.seed * 31 + g)})
        events += vf.read_ndjson(out)
        os.unlink(out)
    accepted = judge(ctx, events)
    ctx.cov["traces_validated_against_impl"] += len(events)
    ctx.cov["histories"] = {s: sum(1 for e in events if e["src"] == s) for s in ("tlc", "seq", "conc")}
    ctx.cov["calls"] = sum(len(t) for e in events for t in e["threads"])
    ctx.count_cases(len(events), {vf.json.dumps(e["threads"], sort_keys=True) for e in events})
    for e in events[:1] + events[-1:]:
        ctx.sample(dict(src=e["src"], threads=[[dict(op=c["op"], ret=c["ret"]) for c in t][:4] for t in e["threads"]]))


def judge(ctx, events, shards=12):
    from concurrent.futures import ThreadPoolExecutor
    n = len(events)
    shards = max(1, min(shards, n))
    cuts = [(n * k) // shards for k in range(shards + 1)]
    ctx.specdir()

    def one(j):
        a, b = cuts[j], cuts[j + 1]
        if a == b:
            return set()
        path = os.path.join(ctx.tmp, "lin-%d.ndjson" % j)
        vf.write_ndjson(path, events[a:b])
        res = ctx.validate_trace("Trace_FeeLin.tla", "Trace_FeeLin.cfg", path, b - a)
        os.unlink(path)
        lin = [o for o in res["emitted"] if isinstance(o, dict) and o.get("k") == "linearized"]
        if not lin:
            raise vf.Infra("no linearized record from Trace_FeeLin")
        return {a + i - 1 for i in lin[-1]["hs"]}
    with ThreadPoolExecutor(max_workers=shards) as ex:
        acc = set().union(*ex.map(one, range(shards)))
    for i, e in enumerate(events):
        if i in acc:
            continue
        kinds = sorted({c["op"]["k"] for t in e["threads"] for c in t})
        torn = any(c["ret"].get("val") == -777 or (-777 in (c["ret"].get("snap") or {}).values()) for t in e["threads"] for c in t)
        key = "%s:%s" % ("sequential" if len(e["threads"]) == 1 else "not-linearizable", "torn-value" if torn else "replies")
        ctx.candidate(key, "%s history of %d goroutines (calls %s) has no order in which every reply is the specified one" % (
            e["src"], len(e["threads"]), kinds), dict(history=e))
    return acc


def replay(ctx, case):
    e = case["case"]["history"]
    # a sequential history is re-executed; a concurrent one is re-judged as recorded (schedules do not repeat)
    if len(e["threads"]) == 1:
        cpath = os.path.join(ctx.tmp, "one.ndjson")
        vf.write_ndjson(cpath, [dict(k="seq", calls=[dict(op=c["op"]) for c in e["threads"][0]])])
        out = os.path.join(ctx.tmp, "one-out.ndjson")
        ctx.run_vh(["feestore", "-out", out, "-n", 0, "-nseq", 0, "-cases", cpath])
        judge(ctx, vf.read_ndjson(out), shards=1)
    else:
        judge(ctx, [e], shards=1)
