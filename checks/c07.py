"""C07 - script execution is total: it always terminates with success or an error value."""
import random

from checks import c05
from checks import scriptasm as A
from checks import vmcommon as V
from lib import vf

LEVEL = "model_checking"


def classify(events, i, why):
    b, beg, end = V.trace_of(events, i)
    cls = why.get("cls")
    if cls == "total":
        run = why.get("run", "rec")
        outcome = why["outcome"]
        opn = c05.opname(why["op"]) if why.get("op", -1) >= 0 else "?"
        if end.get("steps", 0) == 0 and end.get("oddctx"):
            opn = "setup"
        elif outcome == "crash":
            opn = guess_op(beg, end)
        elif opn == "?":
            # name the opcode from the implementation's own error text when the spec was not tracking
            opn = guess_op(beg, end)
        ctx = "oddctx" if end.get("oddctx") else ("notx" if beg.get("notx") else "tx")
        return "%s:%s:%s" % (outcome, opn, ctx), "execution ends with %s (%s; debugger=%s; %s)" % (
            outcome, opn, run, (end.get("err") or end.get("nodbgErr") or end.get("scribbleErr") or "")[:100])
    if cls == "steps":
        return "steps", "more steps executed (%d) than the script has tokens" % why["n"]
    return None, None


def guess_op(beg, end):
    ops = [o for o in V.tokens_ops(bytes(beg["lock"])) + V.tokens_ops(bytes(beg["unlock"])) if o > 96]
    for name in ("CHECKMULTISIG", "CHECKSIG", "CHECKLOCKTIMEVERIFY", "CHECKSEQUENCEVERIFY"):
        if A.OPS.get(name) in ops or A.OPS.get(name + "VERIFY") in ops:
            return name
    return "?"


def byte_cases(ctx, n2, n3):
    """every 1- and 2-byte script (sampled in quick), 3-byte scripts over an alphabet; both eras"""
    rng = random.Random(ctx.seed * 31 + 7)
    out = []
    G = A.FLAGBITS["UTXO_AFTER_GENESIS"]
    ones = [bytes([a]) for a in range(256)]
    twos = [bytes([a, b]) for a in range(256) for b in range(256)]
    if len(twos) > n2:
        twos = rng.sample(twos, n2)
    alpha = [0, 1, 2, 0x4c, 0x4d, 0x4e, 0x4f, 0x51, 0x60, 0x61, 0x63, 0x64, 0x65, 0x67, 0x68, 0x69, 0x6a, 0x6b, 0x6c, 0x76, 0x79, 0x7a,
             0x7e, 0x7f, 0x80, 0x81, 0x84, 0x87, 0x8b, 0x93, 0x95, 0x96, 0x98, 0x99, 0xa9, 0xab, 0xac, 0xae, 0xb1, 0xb2, 0xff]
    threes = [bytes([rng.choice(alpha), rng.choice(alpha), rng.choice(alpha)]) for _ in range(n3)]
    k = 0
    for s in ones + twos + threes:
        for g in (0, G):
            fl = g | (rng.getrandbits(16) & ~G if rng.random() < 0.5 else 0)
            if rng.random() < 0.5:
                out.append(V.mkcase("b%d" % k, b"", s, fl, "bytes"))
            else:
                out.append(V.mkcase("b%d" % k, s, rng.choice([b"\x51", b"", s, b"\x76\x93"]), fl, "bytes"))
            k += 1
    return out


def odd_context_cases(ctx, n):
    rng = random.Random(ctx.seed * 131 + 9)
    out = []
    for k in range(n):
        c = V.random_cases(ctx, 1, tag="odd")[0]
        c = dict(c)
        c["id"] = "odd%d" % k
        c["lock"] = list(V.rand_script(rng, rng.randint(1, 6)) + bytes([rng.choice([0xac, 0xad, 0xae, 0xaf, 0xb1, 0xb2, 0x51])]))
        c["unlock"] = list(V.rand_script(rng, rng.randint(0, 3)))
        c["flags"] = rng.getrandbits(16)
        m = rng.random()
        if m < 0.25:
            c["notx"] = True
        elif m < 0.45:
            c["idx"] = rng.choice([-1, 1, 2, 7, -2147483648, 2147483647])
            c["nin"] = rng.choice([1, 2])
        elif m < 0.6:
            c["nilprev"] = True
        elif m < 0.7:
            c["notx"] = True
            c["idx"] = rng.choice([-1, 1])
        out.append(c)
    return out


def sigop_cases(ctx, n):
    """arbitrary stack contents in front of the signature / locktime opcodes, all flags, with a tx"""
    rng = random.Random(ctx.seed * 17 + 3)
    out = []
    for k in range(n):
        pushes = b"".join(V.rand_push(rng) for _ in range(rng.randint(0, 6)))
        op = rng.choice([0xac, 0xad, 0xae, 0xaf, 0xb1, 0xb2, 0xab])
        if op in (0xae, 0xaf) and rng.random() < 0.5:
            # explicit key / signature counts, including absurd ones
            cnt = lambda: V.minimal_push(A.scriptnum(rng.choice([0, 1, 2, 3, 20, 21, 500, 2**31 - 3, 2**31 - 2, 2**31 - 1, 2**31, -1, 2**40])))
            pushes = pushes + (cnt() if rng.random() < 0.5 else b"") + b"".join(V.rand_push(rng) for _ in range(rng.randint(0, 3))) + cnt()
        lock = pushes + bytes([op]) + (b"" if rng.random() < 0.5 else bytes([rng.choice([0xac, 0xae, 0x51])]))
        if rng.random() < 0.25:
            # raw bytes after a top-level OP_RETURN: never executed, but parsed, and part of the script code
            # that signature removal and hashing walk over (1-3 bytes incl. truncated push headers)
            lock += b"\x6a" + bytes(rng.choice([0x00, 0x01, 0x02, 0x4b, 0x4c, 0x4d, 0x4e, 0x51, 0x6a, 0xff]) for _ in range(rng.randint(1, 3)))
        c = V.mkcase("sig%d" % k, V.rand_script(rng, rng.randint(0, 2)) if rng.random() < 0.3 else b"", lock, rng.getrandbits(16), "sigops")
        c["ver"], c["lt"], c["seq"] = V.rand_txctx(rng)
        out.append(c)
    return out


def sigop_tail_cases(ctx):
    """signature opcodes reached with plausible (non-empty, legacy hash type) signature and key pushes, the script
    ending in a top-level OP_RETURN followed by exactly one raw byte - every value that is a push header or an
    opcode; both eras, no encoding flags (so that the digest / signature-removal code is reached)"""
    rng = random.Random(ctx.seed * 19 + 5)
    out = []
    G = A.FLAGBITS["UTXO_AFTER_GENESIS"]
    sig = bytes([0x30, 0x06, 0x02, 0x01, 0x01, 0x02, 0x01, 0x01, 0x01])
    key = bytes([2]) + bytes(range(1, 33))
    k = 0
    for b in list(range(0x00, 0x4f)) + [0x51, 0x60, 0x6a, 0xac, 0xff]:
        for op in (0xac, 0xad, 0xae, 0xaf):
            fl = rng.choice([0, G])
            if op in (0xac, 0xad):
                unlock = V.minimal_push(sig) + V.minimal_push(key)
                lock = bytes([op])
            else:
                unlock = b"\x00" + V.minimal_push(sig)
                lock = b"\x51" + V.minimal_push(key) + b"\x51" + bytes([op])
            c = V.mkcase("tail%d" % k, unlock, lock + b"\x6a" + bytes([b]), fl, "sigops-tail")
            c["ver"], c["lt"], c["seq"] = V.rand_txctx(rng)
            out.append(c)
            k += 1
    return out


def handle(ctx, events, rejects, cases=None):
    for i, why in rejects:
        key, what = classify(events, i, why)
        if key is None:
            continue
        b, beg, end = V.trace_of(events, i)
        if cases is not None and "tx" in cases[beg["case"]]:
            case = cases[beg["case"]]              # a signature scenario: replayed with its transaction
        else:
            case = V.mkcase(beg["id"], beg["unlock"], beg["lock"], beg["flags"], beg.get("src", "replay"),
                            ver=int.from_bytes(bytes(beg["ver"]), "little"), lt=int.from_bytes(bytes(beg["lt"]), "little"),
                            seq=int.from_bytes(bytes(beg["seq"]), "little"), notx=beg.get("notx", False))
            for k in ("idx", "nilprev", "nin"):
                if k in beg.get("extra", {}):
                    case[k] = beg["extra"][k]
        ctx.candidate(key, what, dict(case=case, summary=V.describe(beg, end, why, i - b)))


def run(ctx):
    ctx.cov["rule"] = ("cases = Engine.Execute on arbitrary byte strings as scripts (all 1-byte, 2-byte (sampled in quick), 3-byte over an "
                       "opcode alphabet), random and mutated programs, signature/locktime opcodes behind arbitrary stacks, with all 2^16 "
                       "flag words sampled, with a tx / without / nil previous output / invalid input index, the signature scenarios of C06 (real transaction shapes, all hash types), each run with no debugger, a "
                       "recording and a scribbling debugger, crash-isolated; judged by Trace_VM: outcome in {ok, err} for all three runs, "
                       "steps <= bound, and every recorded step must be a ScriptVM step where the model applies; "
                       "distinct = (scripts, flags, context)")
    ctx.assumptions += ["a harness process death is attributed to the case in flight (intent file, RLIMIT_AS 8 GiB)",
                        "non-termination is detected by a step limit of len(scripts)+600 instructions inside the recording debugger"]
    # totality of the model itself: every MC_ScriptVM family checks `Total` and the termination measure
    from concurrent.futures import ThreadPoolExecutor
    ctx.specdir()
    fams = ctx.pick(["unary", "flow4", "two2"], ["unary", "flow5", "two3", "binary", "uflow4"])
    with ThreadPoolExecutor(max_workers=3) as ex:
        list(ex.map(lambda f: ctx.tlc("MC_ScriptVM.tla", "MC_ScriptVM_%s.cfg" % f, workers=6, heap="6g", timeout=2400), fams))
    # the operand-table families of the model are also replayed here (wide numbers, shift tables, unary edge operands)
    fq, ft = c05.FAMILIES_QUICK, c05.FAMILIES_THOROUGH
    c05.FAMILIES_QUICK, c05.FAMILIES_THOROUGH = ["wide", "shift"], ["wide", "shift", "unary", "nonmin"]
    try:
        model_cases = c05.cases_from_model(ctx, ctx.pick(2500, 20000))
    finally:
        c05.FAMILIES_QUICK, c05.FAMILIES_THOROUGH = fq, ft
    cases = model_cases + byte_cases(ctx, ctx.pick(2500, 65536), ctx.pick(1500, 60000))
    cases += V.random_cases(ctx, ctx.pick(1200, 40000), tag="rnd")
    cases += sigop_cases(ctx, ctx.pick(1500, 40000))
    cases += sigop_tail_cases(ctx)
    cases += odd_context_cases(ctx, ctx.pick(600, 10000))
    cases += V.mutated_vectors(ctx, ctx.pick(400, 10000))
    # signature scenarios over real transaction shapes (1-3 inputs, 0-3 outputs, every signed position, all hash
    # types): the digest code behind CHECKSIG / CHECKMULTISIG must be total as well
    from checks import c06
    cases += c06.gen_cases(ctx, ctx.pick(700, 12000))
    for c in cases:
        c.setdefault("extra", {})
    events = V.run_cases(ctx, cases, three=True)
    # carry the odd-context parameters on the begin events for replay
    bi = 0
    for e in events:
        if e["ev"] == "begin":
            c = cases[e["case"]]
            e["extra"] = {k: c[k] for k in ("idx", "nilprev", "nin") if k in c}
    rejects, st = V.validate(ctx, events)
    ctx.cov.update(st)
    handle(ctx, events, rejects, cases)
    ntr = sum(1 for e in events if e["ev"] == "begin")
    ctx.cov["traces_validated_against_impl"] += ntr
    ctx.cov["executions"] = 3 * ntr
    ctx.count_cases(ntr, {(bytes(e["unlock"]).hex(), bytes(e["lock"]).hex(), e["flags"], e.get("notx"), str(e.get("extra"))) for e in events if e["ev"] == "begin"})
    ends = [e for e in events if e["ev"] == "end"]
    ctx.cov["outcomes"] = {o: sum(1 for e in ends if e["outcome"] == o) for o in sorted({e["outcome"] for e in ends})}
    begs = [e for e in events if e["ev"] == "begin"]
    for e in begs[:2] + begs[len(begs) // 2:len(begs) // 2 + 2]:
        ctx.sample(V.describe(e))


def replay(ctx, case):
    events = V.run_cases(ctx, [case["case"]["case"]], three=True)
    for e in events:
        if e["ev"] == "begin":
            e["extra"] = {k: case["case"]["case"][k] for k in ("idx", "nilprev", "nin") if k in case["case"]["case"]}
    rejects, st = V.validate(ctx, events, shards=1)
    handle(ctx, events, rejects, [case["case"]["case"]])
