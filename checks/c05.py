"""C05 - interpreter evaluates all non-signature opcodes exactly per BSV script rules."""
import random

from checks import scriptasm as A
from checks import vmcommon as V
from lib import vf

LEVEL = "model_checking"


def opname(op):
    return A.OPNAME.get(op, "0x%02x" % op).replace("OP_", "")


def classify(events, i, why):
    b, beg, end = V.trace_of(events, i)
    era = "post" if beg["genesis"] else "pre"
    cls = why.get("cls")
    if cls == "stack":
        return "stack:%s:%s" % (opname(why["op"]), era), "stacks after %s differ from the BSV rules (%s-Genesis)" % (opname(why["op"]), era)
    if cls == "verdict":
        return "verdict:spec-%s-impl-%s:%s" % (why["spec"], why["impl"], era), \
            "verdict %s where the BSV rules give %s (%s-Genesis)" % (why["impl"], why["spec"], era)
    if cls == "extra-step":
        return "extra-step:" + era, "the implementation keeps executing after the specification finished all scripts"
    if cls == "total":
        return "no-verdict:%s:%s" % (why["outcome"], opname(why["op"]) if why["op"] >= 0 else "?"), \
            "execution ends with %s instead of a verdict (at %s)" % (why["outcome"], opname(why["op"]) if why["op"] >= 0 else "?")
    if cls == "hash":
        return "hash:" + why["kind"], "hash opcode result is not the %s of its operand" % why["kind"]
    return None, None


def cases_from_vectors(ctx, limit):
    vs = [v for v in V.load_vectors() if not V.has_sigop(v["unlock"]) and not V.has_sigop(v["lock"])]
    rng = random.Random(ctx.seed)
    if limit and len(vs) > limit:
        vs = rng.sample(vs, limit)
    return [V.mkcase("vec%d" % k, v["unlock"], v["lock"], v["flags"], "vector") for k, v in enumerate(vs)]


FAMILIES_QUICK = ["unary", "shift", "flow4", "nonmin", "binary", "two2", "locktime", "uflow4", "wide", "alias", "alias2", "deadpush"]
FAMILIES_THOROUGH = ["unary", "shift", "flow5", "nonmin", "binary", "ternary", "two3", "locktime", "uflow4", "wide", "alias", "alias2", "deadpush"]


def cases_from_model(ctx, per_family):
    """Exhaustive TLC runs over the program families (invariants checked there); every program is a case."""
    from concurrent.futures import ThreadPoolExecutor
    fams = ctx.pick(FAMILIES_QUICK, FAMILIES_THOROUGH)
    ctx.specdir()
    with ThreadPoolExecutor(max_workers=3) as ex:
        rs = list(ex.map(lambda f: ctx.tlc("MC_ScriptVM.tla", "MC_ScriptVM_%s.cfg" % f, workers=6, heap="6g", timeout=2400), fams))
    rng = random.Random(ctx.seed)
    cases = []
    total = 0
    for fam, r in zip(fams, rs):
        em = [o for o in r["emitted"] if o.get("k") == "case"]
        total += len(em)
        # programs the specification itself does not model (items above ModelLimit) are not replayed
        em = [o for o in em if o["st"] not in ("unmodelled", "toobig")]
        em = V.stratified_sample(em, per_family, rng)
        for k, o in enumerate(em):
            fl = 0
            if o["cltv"]:
                fl |= A.FLAGBITS["CHECKLOCKTIMEVERIFY"]
            if o["csv"]:
                fl |= A.FLAGBITS["CHECKSEQUENCEVERIFY"]
            if o["discourage"]:
                fl |= A.FLAGBITS["DISCOURAGE_UPGRADABLE_NOPS"]
            if o["md"]:
                fl |= A.FLAGBITS["MINIMALDATA"]
            if o["mi"]:
                fl |= A.FLAGBITS["MINIMALIF"]
            if o["genesis"]:
                fl |= A.FLAGBITS["UTXO_AFTER_GENESIS"]
            for name, bit in (("p2sh", "P2SH"), ("cleanstack", "CLEANSTACK"), ("sigpushonly", "SIGPUSHONLY")):
                if o[name]:
                    fl |= A.FLAGBITS[bit]
            i32 = lambda b: int.from_bytes(bytes(b), "little")
            cases.append(V.mkcase("%s%d" % (fam, k), o["unlock"], o["lock"], fl, "tlc-" + fam, ver=i32(o["ver"]), lt=i32(o["lt"]), seq=i32(o["seq"])))
    ctx.cov["tlc_generated_cases"] = total
    ctx.cov["tlc_generated_cases_replayed"] = len(cases)
    return cases


def handle(ctx, events, rejects):
    for i, why in rejects:
        key, what = classify(events, i, why)
        if key is None:
            continue
        b, beg, end = V.trace_of(events, i)
        ctx.candidate(key, what, dict(case=V.mkcase(beg["id"], beg["unlock"], beg["lock"], beg["flags"], beg.get("src", "replay"),
                                                    ver=int.from_bytes(bytes(beg["ver"]), "little"), lt=int.from_bytes(bytes(beg["lt"]), "little"),
                                                    seq=int.from_bytes(bytes(beg["seq"]), "little")),
                                      summary=V.describe(beg, end, why, i - b)))


def run(ctx):
    ctx.cov["rule"] = ("programs = node script vectors without signature opcodes, every program of the TLC families (unary/binary/ternary "
                       "opcode x edge-operand tables, shift tables, control-flow skeletons, non-minimal pushes, two-script programs; both eras, "
                       "MINIMALDATA/MINIMALIF on and off; sampled in quick), random programs over the non-signature opcode alphabet with random "
                       "flag subsets and tx contexts, mutated vectors; each executed on the real engine with a recording debugger and validated "
                       "step by step (both stacks) and on the verdict by Trace_VM against ScriptVM.tla; distinct = (unlock, lock, flags)")
    ctx.assumptions += ["ScriptVM.tla is calibrated on the node's expected verdicts on every run (calibration failure = exit 2)",
                        "hash opcode results are oracle obligations recomputed with python hashlib",
                        "error codes and the position of an error are not compared, only verdicts and stacks (an earlier/later error with the same verdict is accepted)"]
    cal = V.calibrate(ctx, ctx.pick(400, None))
    if cal["bad"]:
        v, o = cal["bad"][0]
        raise vf.Infra("calibration failure: ScriptVM.tla says %s, node vector expects %s: %s | %s" % (o["spec"], v["expect"], A.disasm(v["unlock"]), A.disasm(v["lock"])))
    ctx.cov["calibration"] = {k: v for k, v in cal.items() if k != "bad"}
    cases = cases_from_vectors(ctx, ctx.pick(400, None))
    cases += cases_from_model(ctx, ctx.pick(4500, 40000))
    cases += V.random_cases(ctx, ctx.pick(3000, 60000))
    cases += V.mutated_vectors(ctx, ctx.pick(800, 20000))
    cases += V.p2sh_cases(ctx, ctx.pick(600, 10000))
    cases += V.limit_cases(ctx)
    events = V.run_cases(ctx, cases, three=False)
    rejects, st = V.validate(ctx, events)
    ctx.cov.update(st)
    handle(ctx, events, rejects)
    ntr = sum(1 for e in events if e["ev"] == "begin")
    ctx.cov["traces_validated_against_impl"] += ntr
    ctx.count_cases(ntr, {(bytes(e["unlock"]).hex(), bytes(e["lock"]).hex(), e["flags"]) for e in events if e["ev"] == "begin"})
    begs = [e for e in events if e["ev"] == "begin"]
    for k in (0, len(begs) // 3, 2 * len(begs) // 3):
        ctx.sample(V.describe(begs[k]))


def replay(ctx, case):
    events = V.run_cases(ctx, [case["case"]["case"]], three=False)
    rejects, st = V.validate(ctx, events, shards=1)
    handle(ctx, events, rejects)
