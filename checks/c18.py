"""C18 - thread-safe types are race-free and concurrent validation equals sequential."""
import itertools
import json
import os
import subprocess
from concurrent.futures import ThreadPoolExecutor

from checks import vmcommon as V
from checks import c05
from lib import vf

LEVEL = "model_checking"
RACE_ENV = {"GORACE": "halt_on_error=1 exitcode=66"}


def run_race(ctx, args, maxprocs=None, timeout=300):
    env = dict(RACE_ENV)
    if maxprocs:
        env["GOMAXPROCS"] = str(maxprocs)
    p = ctx.run_vh(args, race=True, env=env, check=False, timeout=timeout)
    if p.returncode not in (0, 66):
        raise vf.Infra("race harness failed rc=%d: %s\n%s" % (p.returncode, args, (p.stderr or "")[-1500:]))
    return p.returncode == 66, (p.stderr or "")[-1200:]


def effective_discipline(steps):
    """The hooks report, for every access, whether the guarding mutex was really held when it happened
    (suffix !none / !shared).  The discipline given to the model is what was *observed*: lock steps the
    probe contradicts are dropped (or downgraded to shared)."""
    mutex_of = {"fees": "fq.mu", "expiryTime": "fq.mu", "quotes": "fqs.mu"}
    drop, share = set(), set()
    out = []
    for st in steps:
        op = st["op"]
        if "!" in op:
            base, state = op.split("!")
            (drop if state == "none" else share).add(mutex_of[st["on"]])
            st = dict(st, op=base)
        out.append(dict(op=st["op"], on=st["on"]))
    res = []
    for st in out:
        if st["op"] in ("lock", "unlock", "rlock", "runlock") and st["on"] in drop:
            continue
        if st["on"] in share and st["op"] in ("lock", "unlock"):
            st = dict(st, op="r" + st["op"])
        res.append(st)
    return res


def run(ctx):
    ctx.cov["rule"] = ("pair = every unordered pair of the 12 FeeQuote/FeeQuotes methods (and each with itself) hammered from 8 goroutines on shared objects "
                       "under the Go race detector, several repetitions with GOMAXPROCS in {2, 4, 16}; history = concurrent writers of distinct values and "
                       "readers (reads must be values some write stored); engine = node-vector / random / wide-number scripts, each case validated by three distinct transactions sharing its script objects, concurrently on one engine vs "
                       "sequentially under the detector. The TLA+ model FeeQuoteConc is instantiated with the lock discipline *recorded from the code* "
                       "through the verif hooks and model-checked for all method pairs (triples in thorough): mutual exclusion, lock balance, all calls "
                       "return, and the set of races the discipline admits (predicted); distinct = (method pair, GOMAXPROCS) / history / engine batch")
    ctx.assumptions += ["the Go race detector is the sensor for data races (it can miss, never invent); only a detector-confirmed race or an unexplained read is a violation",
                        "a race predicted by the model from the recorded discipline but not confirmed by the detector is reported as drift, not as a violation"]
    # 1. lock discipline observed through the hooks (single threaded)
    dpath = os.path.join(ctx.tmp, "disc.json")
    ctx.run_vh(["conc", "-mode", "discipline", "-out", dpath])
    disc = json.load(open(dpath))
    methods = sorted(disc)
    disc = {m: effective_discipline(v) for m, v in disc.items()}
    json.dump(disc, open(dpath, "w"))
    if any(len(v) == 0 for v in disc.values()):
        raise vf.Infra("hooks recorded no lock discipline for %s" % [k for k, v in disc.items() if not v])
    ctx.cov["observed_discipline"] = {k: " ".join("%s(%s)" % (s["op"], s["on"]) for s in v) for k, v in disc.items()}
    # 2. the model with that discipline
    r = ctx.tlc("MC_FeeQuoteConc.tla", ctx.pick("MC_FeeQuoteConc.cfg", "MC_FeeQuoteConc_3.cfg"), env={"DISC": dpath}, timeout=3000)
    predicted = set()
    for o in r["emitted"]:
        if o.get("k") == "raced":
            for a, b, fld in o["raced"]:
                predicted.add(tuple(sorted((a, b))))
    ctx.cov["model_predicted_racy_pairs"] = sorted("+".join(p) for p in predicted)
    # 3. every pair on the real objects under the race detector
    ctx.vh(race=True)
    pairs = list(itertools.combinations_with_replacement(methods, 2))
    procs = ctx.pick([4], [2, 4, 16])
    reps = ctx.pick(1, 10)
    jobs = [(a, b, mp, k) for (a, b) in pairs for mp in procs for k in range(reps)]

    def one(job):
        a, b, mp, k = job
        race, err = run_race(ctx, ["conc", "-mode", "pair", "-m1", a, "-m2", b, "-iters", ctx.pick(200, 1500), "-g", 8], maxprocs=mp)
        return dict(ev="pair", m1=a, m2=b, maxprocs=mp, race=race, predicted=tuple(sorted((a, b))) in predicted, report=err if race else "")
    with ThreadPoolExecutor(max_workers=8) as ex:
        events = list(ex.map(one, jobs))
    # 4. histories and engine
    for g, mp in ctx.pick([(4, 4), (16, 8)], [(2, 2), (4, 4), (8, 16), (16, 8), (16, 16), (32, 16)]):
        hp = os.path.join(ctx.tmp, "hist-%d-%d.json" % (g, mp))
        race, err = run_race(ctx, ["conc", "-mode", "history", "-out", hp, "-g", g, "-iters", ctx.pick(400, 3000)], maxprocs=mp)
        e = json.load(open(hp)) if os.path.exists(hp) else dict(ev="history", reads=0, writes=0, unexplained=[], g=g)
        e.update(race=race, maxprocs=mp, report=err if race else "")
        events.append(e)
    cases = c05.cases_from_vectors(ctx, ctx.pick(300, 1200)) + V.random_cases(ctx, ctx.pick(300, 3000), tag="conc")
    # numeric operands wider than a machine word (post-Genesis big numbers), from the model's operand tables
    fq, ft = c05.FAMILIES_QUICK, c05.FAMILIES_THOROUGH
    c05.FAMILIES_QUICK, c05.FAMILIES_THOROUGH = ["wide"], ["wide", "shift"]
    try:
        cases += c05.cases_from_model(ctx, ctx.pick(300, 3000))
    finally:
        c05.FAMILIES_QUICK, c05.FAMILIES_THOROUGH = fq, ft
    cpath = os.path.join(ctx.tmp, "conc-cases.ndjson")
    vf.write_ndjson(cpath, cases)
    for g, mp in ctx.pick([(8, 8)], [(2, 2), (8, 8), (16, 16)]):
        ep = os.path.join(ctx.tmp, "eng-%d.json" % g)
        race, err = run_race(ctx, ["conc", "-mode", "engine", "-out", ep, "-g", g, "-cases", cpath], maxprocs=mp, timeout=1200)
        e = json.load(open(ep)) if os.path.exists(ep) else dict(ev="engine", n=0, mismatches=0, g=g)
        e.update(race=race, maxprocs=mp, report=err if race else "")
        events.append(e)
    # 5. TLC judges the recorded runs
    slim = [{k: v for k, v in e.items() if k != "report"} for e in events]
    rejects = vf.validate_events(ctx, "Trace_Conc.tla", "Trace_Conc.cfg", slim, shards=1)
    for i, why in rejects:
        e = events[i]
        if e["ev"] == "pair":
            key = "race:%s+%s" % (e["m1"], e["m2"])
            what = "data race between %s and %s (race detector%s)" % (e["m1"], e["m2"], "; predicted by the model" if e["predicted"] else "; NOT predicted from the recorded lock discipline")
        elif e["ev"] == "history":
            key = "history:" + ("race" if e["race"] else "unexplained-read")
            what = "concurrent history: %s" % ("race detector report" if e["race"] else "reads returned values no write stored: %s" % e["unexplained"][:5])
        else:
            key = "engine:" + ("race" if e["race"] else "verdict-mismatch")
            what = "concurrent Engine.Execute: %s" % ("race detector report" if e["race"] else "%d verdicts differ from sequential validation" % e["mismatches"])
        ctx.candidate(key, what, dict(event={k: v for k, v in e.items() if k != "unexplained"}, summary=dict(report=e.get("report", "")[-800:])))
    unconfirmed = sorted({"+".join(sorted((e["m1"], e["m2"]))) for e in events if e["ev"] == "pair" and e["predicted"]} -
                         {"+".join(sorted((e["m1"], e["m2"]))) for e in events if e["ev"] == "pair" and e["race"]})
    ctx.cov["predicted_but_unconfirmed(drift)"] = unconfirmed
    ctx.cov["traces_validated_against_impl"] += len(events)
    ctx.cov["pair_runs"] = len(jobs)
    ctx.count_cases(len(events), {json.dumps({k: v for k, v in e.items() if k in ("ev", "m1", "m2", "maxprocs", "g")}, sort_keys=True) for e in events})
    for e in events[:2] + events[-2:]:
        ctx.sample({k: v for k, v in e.items() if k not in ("report", "unexplained")})


def replay(ctx, case):
    e = case["case"]["event"]
    if e["ev"] != "pair":
        return run(ctx)
    race, err = run_race(ctx, ["conc", "-mode", "pair", "-m1", e["m1"], "-m2", e["m2"], "-iters", 600, "-g", 8], maxprocs=e.get("maxprocs", 4))
    if race:
        ctx.candidate("race:%s+%s" % (e["m1"], e["m2"]), "data race between %s and %s" % (e["m1"], e["m2"]), dict(event=e, summary=dict(report=err)))
