"""C16 - JSON interchange preserves transactions and satoshi amounts exactly."""
import os

from lib import vf

LEVEL = "model_checking"


def classify(e):
    if e["ev"] == "range":
        return "amount-inexact:%s:node" % e["kind"], "%d of the amounts in [%d, %d) do not survive node JSON of a %s (first: %d)" % (e["mismatches"], e["lo"], e["hi"], e["kind"], e["first"])
    if e["ev"] == "amount":
        d = "node" if e["node"] else "lib"
        if e["outcome"] != "ok":
            return "amount-%s:%s:%s" % (e["outcome"], e["kind"], d), "amount %d: %s JSON of a %s ends in %s" % (e["dec"], d, e["kind"], e["outcome"])
        return "amount-inexact:%s:%s" % (e["kind"], d), "amount %d comes back as %d through %s JSON of a %s" % (e["dec"], int.from_bytes(bytes(e["back"]), "little"), d, e["kind"])
    unsigned = not e["expectok"]
    if e["outcome"] == "panic":
        return "panic:%s:%s:%s" % (e["obj"], e["dialect"], "unsigned-or-odd" if unsigned else "signed"), "marshalling a %s (%s JSON) panics: %s" % (e["obj"], e["dialect"], e.get("panic", "")[:80])
    if e["outcome"] == "err":
        return "error-on-signed:%s:%s" % (e["obj"], e["dialect"]), "marshalling a fully signed %s fails: %s" % (e["obj"], e.get("err", "")[:80])
    return "roundtrip:%s:%s" % (e["obj"], e["dialect"]), "%s JSON round trip of a %s changes serialisation / ids / scripts / amounts" % (e["dialect"], e["obj"])


def judge(ctx, events):
    rejects = vf.validate_events(ctx, "Trace_Json.tla", "Trace_Json.cfg", events, shards=8)
    for i, why in rejects:
        e = events[i]
        key, what = classify(e)
        ctx.candidate(key, what, dict(event={k: v for k, v in e.items() if k not in ("orig", "back")}, summary={k: v for k, v in e.items() if k not in ("orig", "back")}))


def run(ctx):
    ctx.cov["rule"] = ("json = marshal + unmarshal of Tx / Txs / Output in library and node JSON at every lifecycle state enumerated by TLC (MC_TxLife: <= 2 inputs "
                       "with/without recorded spent output, signed one at a time, <= 2 outputs of 6 script classes incl. undecodable scripts) and outputs carrying every template instance / mutation of MC_ScriptClass; amount = one "
                       "satoshi amount through Output / UTXO in both dialects (decimal boundaries k*10^j +-1, 21e14, random); range = every amount in "
                       "[0, N) through node JSON, summarised by the number of mismatches (N = 10^6 quick, 2*10^8 thorough); judged by Trace_Json "
                       "(outcome ok/err, identity of projection); distinct = (event, parameters)")
    ctx.assumptions += ["the IEEE-754 exactness claim is decided by enumeration against the identity relation, not by a model of floating point",
                        "range events aggregate an equality observation made by the harness (count of amounts that did not come back equal)"]
    r = ctx.tlc("MC_TxLife.tla", "MC_TxLife.cfg")
    cases = [o for o in r["emitted"] if o.get("k") == "case"]
    ctx.cov["tlc_generated_cases"] = ctx.cov["tlc_generated_cases_replayed"] = len(cases)
    cpath = os.path.join(ctx.tmp, "c16cases.ndjson")
    vf.write_ndjson(cpath, cases)
    # output scripts: the template instances and mutations of MC_ScriptClass (shared with C14)
    rc = ctx.tlc("MC_ScriptClass.tla", "MC_ScriptClass.cfg")
    scripts = [o for o in rc["emitted"] if o.get("k") == "case"]
    import random
    # all of them (about 15 k short scripts): a sample made the detection of seeded changes depend on the seed
    spath = os.path.join(ctx.tmp, "c16scripts.ndjson")
    vf.write_ndjson(spath, scripts)
    ctx.cov["tlc_generated_cases"] += len(scripts)
    ctx.cov["tlc_generated_cases_replayed"] += len(scripts)
    out = os.path.join(ctx.tmp, "c16.ndjson")
    ctx.run_vh(["jsonx", "-cases", cpath, "-scripts", spath, "-out", out, "-range", ctx.pick(1000000, 200000000), "-n", ctx.pick(1500, 50000)], timeout=6000)
    events = vf.read_ndjson(out)
    os.unlink(out)
    judge(ctx, events)
    ctx.cov["traces_validated_against_impl"] += len(events)
    ctx.cov["amounts_enumerated"] = sum(e["hi"] - e["lo"] for e in events if e["ev"] == "range") + sum(1 for e in events if e["ev"] == "amount")
    ctx.count_cases(len(events), {vf.json.dumps({k: v for k, v in e.items() if k in ("ev", "dialect", "obj", "orig", "sats", "kind", "node", "lo")}, sort_keys=True) for e in events})
    ctx.cov["json_outcomes"] = {o: sum(1 for e in events if e["ev"] == "json" and e["outcome"] == o) for o in ("ok", "err", "panic")}
    for e in [x for x in events if x["ev"] == "json"][:2] + [x for x in events if x["ev"] == "amount"][:1] + [x for x in events if x["ev"] == "range"][:1]:
        ctx.sample({k: v for k, v in e.items() if k not in ("orig", "back")})


def replay(ctx, case):
    print("replay re-runs the whole (deterministic) quick driver for C16")
    run(ctx)
