"""C02 - FORKID signature hash equals the BSV replay-protected digest for every hash type."""
from checks import sighash

LEVEL = "model_checking"
RULE = ("pre = CalcInputPreimage%s + CalcInputSignatureHash on a transaction, input index and 8-bit hash type %s bit 0x40; "
        "inputs: every (shape, index incl. out of range, hash type) of the TLC model MC_SigHash and random transactions with "
        "boundary script lengths; the preimage is matched byte-for-byte against SigHash.tla, embedded hashes and the final digest "
        "are oracle obligations verified with python hashlib; distinct = (index, hash type, preimage); non-trivial = outcome ok")
ASSUME = ["SHA-256d is an uninterpreted function in the spec; every hash value used is recomputed by python hashlib",
          "SigHash.tla is calibrated on the node-generated vectors shipped in bscript/interpreter/data (run on every check)"]


def run(ctx):
    ctx.cov["rule"] = RULE % ("", "with")
    ctx.assumptions += ASSUME
    sighash.run_alg(ctx, "forkid")


def replay(ctx, case):
    sighash.replay(ctx, case, "forkid")
