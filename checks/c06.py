"""C06 - signature opcodes accept exactly valid, correctly ordered signatures."""
import os

from checks import c05
from checks import scriptasm as A
from checks import vmcommon as V
from lib import vf

LEVEL = "model_checking"
FL = A.FLAGBITS


def flagtag(fl):
    names = [("STRICTENC", "S"), ("DERSIG", "D"), ("LOW_S", "L"), ("NULLDUMMY", "M"), ("NULLFAIL", "N"), ("SIGHASH_FORKID", "F"), ("UTXO_AFTER_GENESIS", "G")]
    return "".join(t for n, t in names if fl & FL[n]) or "-"


def classify(events, i, why, case=None):
    b, beg, end = V.trace_of(events, i)
    cls = why.get("cls")
    src = beg.get("src", "?")
    # root-cause feature: a hash type carrying the FORKID bit while the FORKID flag is off
    if case is not None and not beg["flags"] & FL["SIGHASH_FORKID"] and cls in ("stack", "verdict", "sig-error"):
        if any(n["bytes"] and n["bytes"][-1] & 0x40 for n in (case["sx"].get("sigs") or [])):
            op = "CHECKMULTISIG" if src == "multisig" else "CHECKSIG"
            return "forkid-bit-without-forkid-flag:%s" % op, \
                "%s verifies a signature whose hash type has the FORKID bit against the FORKID digest although the FORKID flag is off (the node uses the legacy digest)" % op
    if cls == "stack":
        return "result:%s:%s:%s" % (c05.opname(why["op"]), src, flagtag(beg["flags"])), \
            "%s pushes a different result than the BSV rules (%s, flags %s)" % (c05.opname(why["op"]), src, flagtag(beg["flags"]))
    if cls == "verdict":
        return "verdict:spec-%s-impl-%s:%s:%s" % (why["spec"], why["impl"], src, flagtag(beg["flags"])), \
            "verdict %s where the rules give %s (%s, flags %s)" % (why["impl"], why["spec"], src, flagtag(beg["flags"]))
    if cls == "total":
        return "no-verdict:%s:%s" % (why["outcome"], src), "execution ends with %s (%s)" % (why["outcome"], src)
    if cls == "sig-error":
        return "error-instead-of-result:%s:%s:%s" % (c05.opname(why["op"]), src, flagtag(beg["flags"])), \
            "%s ends the script with an error (%s) where the rules give a result (%s, flags %s)" % (c05.opname(why["op"]), end.get("err", "")[:60], src, flagtag(beg["flags"]))
    return None, None


def handle(ctx, events, rejects, cases):
    for i, why in rejects:
        b, beg, end = V.trace_of(events, i)
        key, what = classify(events, i, why, cases[beg["case"]])
        if key is None:
            continue
        ctx.candidate(key, what, dict(case=cases[beg["case"]], summary=V.describe(beg, end, why, i - b)))


def gen_cases(ctx, n):
    cpath = os.path.join(ctx.tmp, "sig-cases.ndjson")
    ctx.run_vh(["sigs", "-out", cpath, "-n", n])
    return vf.read_ndjson(cpath)


def run(ctx):
    ctx.cov["rule"] = ("scenarios = P2PK-style CHECKSIG(VERIFY) with OP_CODESEPARATOR before / between / in an unexecuted branch / after the opcode, and bare "
                       "m-of-n CHECKMULTISIG(VERIFY) for 0<=m<=n<=3 with in-order / shuffled / reversed signers, over random transaction shapes (1-3 "
                       "inputs, 0-3 outputs, any signed position), key encodings (compressed, uncompressed, hybrid, bad length/prefix), signature classes "
                       "(valid, high-S, wrong key, wrong message, empty, garbage, non-strict DER), 12 standard + undefined hash types, FORKID bit agreeing "
                       "or not with the flag, and all subsets of STRICTENC/DERSIG/LOW_S/NULLDUMMY/NULLFAIL/FORKID/GENESIS. Signatures are made with fresh "
                       "keys over preimages built by the harness; SigCheck.tla decides from the bytes (DER, low-S, hash type, key shape) and from who signed "
                       "which preimage - matched symbolically against SigHash.tla with hash obligations - what every opcode must push or whether it must "
                       "fail; the real engine's per-step stacks and verdict are validated by Trace_VM; distinct = (scripts, flags, tx)")
    ctx.assumptions += ["ECDSA (go-bk bec) is trusted: a signature verifies iff that key signed exactly that digest; high-S twins verify too",
                        "non-strict-DER classes are limited to one extra leading zero in R (accepted by the lax parser), garbage never parses"]
    ctx.tlc("MC_SigCheck.tla", "MC_SigCheck.cfg")      # design: the in-order walk accepts exactly ordered, valid signatures
    cal = V.calibrate(ctx, ctx.pick(200, 600))
    if cal["bad"]:
        raise vf.Infra("calibration failure of ScriptVM.tla")
    cases = gen_cases(ctx, ctx.pick(900, 100000))
    events = V.run_cases(ctx, cases, three=False, tag="sig")
    rejects, st = V.validate(ctx, events)
    ctx.cov.update(st)
    handle(ctx, events, rejects, cases)
    ntr = sum(1 for e in events if e["ev"] == "begin")
    ctx.cov["traces_validated_against_impl"] += ntr
    ends = [e for e in events if e["ev"] == "end"]
    ctx.cov["accepted_by_engine"] = sum(1 for e in ends if e["outcome"] == "ok")
    ctx.count_cases(ntr, {(bytes(e["unlock"]).hex(), bytes(e["lock"]).hex(), e["flags"]) for e in events if e["ev"] == "begin"})
    begs = [e for e in events if e["ev"] == "begin"]
    for k in (0, 1, len(begs) // 2):
        ctx.sample(dict(V.describe(begs[k]), outcome=ends[k]["outcome"]))


def replay(ctx, case):
    c = case["case"]["case"]
    events = V.run_cases(ctx, [c], three=False, tag="sig")
    rejects, st = V.validate(ctx, events, shards=1)
    handle(ctx, events, rejects, [c])
