"""C12 - funding stops exactly when covered and consumes supplier UTXOs faithfully."""
from checks import builder as B
from lib import vf

LEVEL = "model_checking"


def classify(e):
    if e["ev"] == "panic":
        return "panic", "Fund panics: " + e.get("panic", "")[:100]
    return "protocol:%s" % e["outcome"], "supplier calls %s / outcome %s / resulting inputs differ from the funding protocol" % (e["calls"], e["outcome"])


def handle(ctx, events, rejects):
    for i, why in rejects:
        e = events[i]
        if e["ev"] not in ("fund", "panic") or (e["ev"] == "panic" and "replies" not in e):
            continue
        key, what = classify(e)
        ctx.candidate(key, what, dict(event=e, summary=dict(pre=B.short(e["pre"]), q=e["q"], calls=e["calls"], outcome=e.get("outcome"),
                                                          replies=[dict(kind=r["kind"], utxos=[(u["id"], u["sats"]) for u in r["utxos"]]) for r in e["replies"]],
                                                          post=B.short(e["post"]))))


def run(ctx):
    ctx.cov["rule"] = ("fund = Tx.Fund driven by a scripted, recording UTXOGetterFunc: every supplier history of MC_Fund (<= 3 replies quick, <= 4 "
                       "thorough, over empty/one/many-UTXO batches, unsupported scripts, NoUTXO, error) x starting transactions x quotes, plus "
                       "random histories, and one run crossing 65536 inputs; judged by Fund!FundRun: the exact sequence of deficits passed to the supplier, the outcome, and the "
                       "resulting inputs (order, txid tag, vout, value, script kind, final sequence) and untouched outputs; distinct = (pre, quote, history)")
    r = ctx.tlc("MC_Fund.tla", ctx.pick("MC_Fund.cfg", "MC_Fund_t.cfg"))
    cases = [o for o in r["emitted"] if o.get("k") == "case"]
    ctx.cov["tlc_generated_cases"] = len(cases)
    cases = B.sample(ctx, cases, ctx.pick(3000, 10**9))
    ctx.cov["tlc_generated_cases_replayed"] = len(cases)
    events = B.run_driver(ctx, "fund", ctx.pick(1500, 250000), cases)
    rejects = B.validate(ctx, events)
    # one funding run whose input count crosses 65535/65536 (a 21 MB event: validated on its own)
    big = B.run_driver(ctx, "fund", 0, None, extra=["-huge"])
    off = len(events)
    rejects += [(off + i, why) for i, why in vf.validate_events(ctx, "Trace_Builder.tla", "Trace_Builder.cfg", big, shards=1, heap="4g")]
    events += big
    handle(ctx, events, rejects)
    fe = [e for e in events if e["ev"] == "fund"]
    ctx.cov["traces_validated_against_impl"] += len(events)
    ctx.count_cases(len(fe), {vf.json.dumps([e["pre"], e["q"], e["replies"]], sort_keys=True) for e in fe})
    ctx.cov["outcomes"] = {o: sum(1 for e in fe if e.get("outcome") == o) for o in ("ok", "insufficient", "err", "esterr")}
    for e in fe[:1] + fe[-2:]:
        ctx.sample(dict(pre=B.short(e["pre"]), q=e["q"], calls=e["calls"], outcome=e["outcome"],
                        replies=[dict(kind=r["kind"], utxos=[(u["id"], u["sats"]) for u in r["utxos"]]) for r in e["replies"]]))


def replay(ctx, case):
    e = case["case"]["event"]
    from checks.c10 import kind_of, is_data
    tx0 = dict(ins=[dict(sats=i["sats"], ulen=i["ulen"], kind=kind_of(i), id=i["id"], vout=i["vout"]) for i in e["pre"]["ins"]],
               outs=[dict(sats=o["sats"], slen=o["slen"], data=is_data(o["head"])) for o in e["pre"]["outs"]])
    hist = [dict(kind=r["kind"], utxos=[dict(id=u["id"], vout=u["vout"], sats=u["sats"], kind=kind_of(u)) for u in r["utxos"]]) for r in e["replies"]]
    events = B.run_driver(ctx, "none", 0, [dict(k="case", tx0=tx0, q=e["q"], hist=hist)])
    rejects = B.validate(ctx, events, shards=1)
    handle(ctx, events, rejects)
