"""Shared driver for C01 (codec lossless & canonical) and C09 (decoding total, resource-bounded)."""
import os
from concurrent.futures import ThreadPoolExecutor

from lib import vf


def annotate(events):
    for e in events:
        if e["ev"] == "ser":
            e["h"] = list(vf.sha256d(e["std"]))
        elif e["ev"] == "parse":
            for t in e["txs"]:
                t["h"] = list(vf.sha256d(t["std"]))
            e.pop("err", None)
    return events


def run_driver(ctx, args, out):
    """Runs `vh txwire`; a crash of the harness process (fatal runtime error, log.Fatal) is turned
    into an event with outcome "crash" and the driver is restarted after the offending call."""
    start = 0
    crashes = 0
    while True:
        p = ctx.run_vh(["txwire", "-out", out, "-start", start] + args, check=False, timeout=3000, as_limit_gb=6)
        intent = out + ".intent"
        if p.returncode == 0 and not os.path.exists(intent):
            break
        if not os.path.exists(intent):
            raise vf.Infra("txwire driver failed rc=%d\n%s" % (p.returncode, p.stderr[-2000:]))
        idx, kind, api, hexin = (open(intent).read().split(" ") + ["", "", ""])[:4]
        os.unlink(intent)
        crashes += 1
        if crashes > 300:
            raise vf.Infra("txwire driver keeps crashing")
        ev = dict(ev="parse" if kind == "parse" else "ser-crash", api=api, src="crash", ok=False, used=0, txs=[], outcome="crash", alloc=0,
                  case=int(idx), panic=(p.stderr or "")[-300:])
        ev["in"] = list(bytes.fromhex(hexin))
        with open(out, "a") as f:
            f.write(vf.json.dumps(ev) + "\n")
        start = int(idx) + 1
    return annotate(vf.read_ndjson(out))


def model_cases(ctx, want_tx=True):
    """Exhaustive TLC runs on the codec model; returns the emitted cases."""
    cfgs = []
    if want_tx:
        cfgs.append(ctx.pick("MC_TxWire_txq.cfg", "MC_TxWire_tx.cfg"))
    cfgs.append(ctx.pick("MC_TxWire_feedq.cfg", "MC_TxWire_feed.cfg"))
    ctx.specdir()
    with ThreadPoolExecutor(max_workers=2) as ex:
        rs = list(ex.map(lambda c: ctx.tlc("MC_TxWire.tla", c, workers=8, heap="6g"), cfgs))
    cases = []
    for r in rs:
        cases += [o for o in r["emitted"] if o.get("k") == "case"]
    return cases


def sample_cases(ctx, cases, n):
    import random
    rng = random.Random(ctx.seed)
    if len(cases) <= n:
        return cases
    return rng.sample(cases, n)


def collect(ctx, driver_args, cases, shards=12):
    cpath = os.path.join(ctx.tmp, "txwire-cases.ndjson")
    vf.write_ndjson(cpath, cases)
    out = os.path.join(ctx.tmp, "txwire.ndjson")
    events = run_driver(ctx, ["-cases", cpath] + driver_args, out)
    os.unlink(out)
    rejects = vf.validate_events(ctx, "Trace_TxWire.tla", "Trace_TxWire.cfg", events, shards=shards)
    ctx.cov["traces_validated_against_impl"] += len(events)
    ctx.count_cases(len(events), {(e["ev"], e.get("api"), bytes(e.get("in", e.get("std", []))).hex()[:4000]) for e in events
                                  if e["ev"] == "ser" or e.get("outcome") != "crash"})
    return events, rejects


def describe(e):
    d = dict(ev=e["ev"], api=e.get("api"), src=e.get("src"), outcome=e.get("outcome"))
    if "in" in e:
        d["in_hex"] = bytes(e["in"]).hex()[:200] + ("..." if len(e["in"]) > 100 else "")
        d["in_len"] = len(e["in"])
        d["used"] = e.get("used")
        d["alloc"] = e.get("alloc")
    if e["ev"] == "ser":
        d["std_hex"] = bytes(e["std"]).hex()[:200]
    return d


def replay_case(ctx, case):
    e = case["case"]["event"]
    one = os.path.join(ctx.tmp, "one.ndjson")
    if e["ev"] == "ser":
        vf.write_ndjson(one, [dict(k="case", tx=e["tx"])])
    else:
        vf.write_ndjson(one, [dict(k="case", buf=e["in"], api=e["api"])])
    out = os.path.join(ctx.tmp, "one-out.ndjson")
    events = run_driver(ctx, ["-only", "-cases", one], out)
    rejects = vf.validate_events(ctx, "Trace_TxWire.tla", "Trace_TxWire.cfg", events, shards=1)
    return events, rejects
