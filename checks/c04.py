"""C04 - library-made signatures verify and commit to exactly what their hash type says."""
import os

from checks import c05
from checks import vmcommon as V
from lib import vf

LEVEL = "model_checking"


def classify(events, i, why, case):
    b, beg, end = V.trace_of(events, i)
    src = beg.get("src", "?")
    ht = (case["sx"]["sigs"][0]["bytes"][-1]) if case["sx"].get("sigs") else 0
    base = {1: "ALL", 2: "NONE", 3: "SINGLE"}.get(ht & 0x1f, "?") + ("|ACP" if ht & 0x80 else "") + ("|FORKID" if ht & 0x40 else "")
    cls = why.get("cls")
    if cls == "signframe":
        return "signing-changes-tx:%s" % base, "signing inputs through FillInput (%s on the checked input) changed the transaction beyond unlocking scripts" % base
    if src == "commit-base":
        return "library-signature-rejected:%s" % base, "an input signed through FillInput/FillAllInputs with %s is not accepted by the interpreter (or not the specified digest)" % base
    mut = src.replace("commit-", "")
    impl_ok = end["outcome"] == "ok"
    if cls in ("verdict", "stack"):
        return "coverage:%s:%s:%s" % (mut, base, "still-valid" if impl_ok else "invalidated"), \
            "after mutating %s an input signed with %s is %s by the interpreter, contrary to what the hash type commits to" % (mut, base, "still accepted" if impl_ok else "rejected")
    if cls == "total":
        return "no-verdict:%s" % why["outcome"], "execution ends with %s" % why["outcome"]
    return None, None


def handle(ctx, events, rejects, cases):
    for i, why in rejects:
        b, beg, end = V.trace_of(events, i)
        key, what = classify(events, i, why, cases[beg["case"]])
        if key is None:
            continue
        ctx.candidate(key, what, dict(case=cases[beg["case"]], summary=V.describe(beg, end, why, i - b)))


def require_base_accepted(ctx, events, cases):
    """the first half of the property: an input signed through the library IS accepted (the trace spec only
    says the verdict is the specified one, so an input that is consistently rejected would slip through)"""
    beg = None
    for e in events:
        if e["ev"] == "begin":
            beg = e
        elif e["ev"] == "end" and beg is not None and beg["src"] == "commit-base" and e["outcome"] != "ok":
            case = cases[beg["case"]]
            ht = case["sx"]["sigs"][0]["bytes"][-1] if case["sx"].get("sigs") else 0
            ctx.candidate("library-signature-rejected:0x%02x" % ht, "an input signed through the library (hash type 0x%02x) is rejected by the interpreter: %s" % (ht, e.get("err", "")[:80]),
                          dict(case=case, summary=V.describe(beg, e)))


def run(ctx):
    ctx.cov["rule"] = ("scenario = a transaction of 1-3 inputs / 0-3 outputs whose input i spends a P2PKH (or P2PKH-inscription) output and is signed through the "
                       "library (FillInput with each of the 12 standard hash types, default hash type, FillAllInputs) with a fresh key; the real interpreter "
                       "runs it (FORKID types under the FORKID flag, legacy types without) and then once per single-field mutation (version, locktime, own/other "
                       "outpoint, own/other sequence, output value/script at the same and another index, output append/remove, input append / insert before / "
                       "remove, spent value, spent script). Trace_VM decides each verdict from SigHash.tla: the signature is annotated with the preimage the "
                       "harness computed for the *unmutated* transaction, so it verifies exactly when the (possibly mutated) required preimage is still that "
                       "one; TLC additionally proves the commitment table against SigHash on the model (MC_Commit); distinct = (scripts, flags, tx)")
    ctx.assumptions += ["ECDSA (go-bk bec) trusted; the abstract relation 'verifies iff the key signed exactly the required preimage'",
                        "hash obligations (HASH160 of the key, hashes embedded in FORKID preimages) recomputed by python hashlib"]
    ctx.tlc("MC_Commit.tla", "MC_Commit.cfg")
    cpath = os.path.join(ctx.tmp, "commit-cases.ndjson")
    ctx.run_vh(["sigs", "-mode", "commit", "-out", cpath, "-n", ctx.pick(260, 25000)])
    cases = vf.read_ndjson(cpath)
    events = V.run_cases(ctx, cases, three=False, tag="commit")
    rejects, st = V.validate(ctx, events)
    ctx.cov.update(st)
    handle(ctx, events, rejects, cases)
    require_base_accepted(ctx, events, cases)
    ntr = sum(1 for e in events if e["ev"] == "begin")
    ctx.cov["traces_validated_against_impl"] += ntr
    begs = [e for e in events if e["ev"] == "begin"]
    ends = [e for e in events if e["ev"] == "end"]
    ctx.cov["base_scenarios"] = sum(1 for e in begs if e["src"] == "commit-base")
    ctx.cov["base_accepted"] = sum(1 for b, e in zip(begs, ends) if b["src"] == "commit-base" and e["outcome"] == "ok")
    by = {}
    for b, e in zip(begs, ends):
        if b["src"] != "commit-base":
            d = by.setdefault(b["src"].replace("commit-", ""), dict(still_valid=0, invalidated=0))
            d["still_valid" if e["outcome"] == "ok" else "invalidated"] += 1
    ctx.cov["mutations"] = by
    ctx.count_cases(ntr, {(bytes(e["unlock"]).hex(), bytes(e["lock"]).hex(), e["flags"], vf.json.dumps(cases[e["case"]]["tx"], sort_keys=True), cases[e["case"]].get("amount")) for e in begs})
    for k in (0, 1, len(begs) // 2):
        ctx.sample(dict(V.describe(begs[k]), outcome=ends[k]["outcome"], tx=cases[begs[k]["case"]]["tx"]))


def replay(ctx, case):
    c = case["case"]["case"]
    if not c.get("sx", {}).get("frame", True):
        # "signing changed the transaction" is an observation made while the scenario was generated (fresh keys):
        # it is reproduced by generating scenarios again, not by re-running the recorded scripts
        return run(ctx)
    events = V.run_cases(ctx, [c], three=False, tag="commit")
    rejects, st = V.validate(ctx, events, shards=1)
    handle(ctx, events, rejects, [c])
    require_base_accepted(ctx, events, [c])
