"""Shared machinery of the interpreter checks (C05, C07, C08, C19): node vectors, calibration of
ScriptVM.tla, running the real engine through the harness, trace validation."""
import json
import os
import random

from checks import scriptasm as A
from lib import vf

VEC = os.path.join(vf.REPO, "bscript/interpreter/data/script_tests.json")
SIGOPS = {172, 173, 174, 175}


def tokens_ops(b):
    """opcodes of a script (best effort; stops at a malformed push)"""
    ops, i = [], 0
    while i < len(b):
        op = b[i]
        ops.append(op)
        if 1 <= op <= 75:
            i += 1 + op
        elif op in (76, 77, 78):
            w = {76: 1, 77: 2, 78: 4}[op]
            if i + 1 + w > len(b):
                break
            i += 1 + w + int.from_bytes(b[i + 1:i + 1 + w], "little")
        else:
            i += 1
    return ops


def has_sigop(b):
    return bool(SIGOPS & set(tokens_ops(bytes(b))))


def load_vectors():
    """-> list of dict(unlock, lock, flags, expect, comment) for the vectors that carry no amount"""
    out = []
    for r in json.load(open(VEC)):
        if len(r) < 4:
            continue
        amount = None
        if isinstance(r[0], list):
            amount, r = r[0][0], r[1:]
        try:
            u, l = A.parse(r[0]), A.parse(r[1])
        except ValueError:
            continue
        out.append(dict(unlock=u, lock=l, flags=A.flags(r[2]), expect=r[3], comment=r[4] if len(r) > 4 else "", amount=amount))
    return out


LE1 = [1, 0, 0, 0]
LE0 = [0, 0, 0, 0]
LEF = [255, 255, 255, 255]


def mkcase(cid, unlock, lock, flags, src, ver=1, lt=0, seq=0xffffffff, notx=False):
    return dict(id=str(cid), unlock=list(unlock), lock=list(lock), flags=flags, ver=ver, lt=lt, seq=seq, notx=notx, src=src)


def calib_event(v):
    f, g = A.flagrec(v["flags"])
    return dict(ev="calib", unlock=list(v["unlock"]), lock=list(v["lock"]), genesis=g, f=f, lt=LE0, seq=LEF, ver=LE1,
                expect="ok" if v["expect"] == "OK" else "err", horc=[])


def calibrate(ctx, limit=None):
    """Direction C: the specification alone against the node's expected verdicts (no go-bt involved).
    Vectors with signature opcodes are left to SigCheck (C06).  Any disagreement is a *specification*
    error: Infra (exit 2)."""
    vs = [v for v in load_vectors() if not has_sigop(v["unlock"]) and not has_sigop(v["lock"])]
    if limit and len(vs) > limit:
        vs = random.Random(ctx.seed).sample(vs, limit)
    evs = [calib_event(v) for v in vs]
    from concurrent.futures import ThreadPoolExecutor
    ctx.specdir()
    HASH = {"sha256d": vf.sha256d, "sha256": lambda b: __import__("hashlib").sha256(bytes(b)).digest(),
            "sha1": lambda b: __import__("hashlib").sha1(bytes(b)).digest(),
            "ripemd160": lambda b: __import__("hashlib").new("ripemd160", bytes(b)).digest(),
            "hash160": lambda b: __import__("hashlib").new("ripemd160", __import__("hashlib").sha256(bytes(b)).digest()).digest()}

    def run_round(idxs, rnd):
        n = len(idxs)
        shards = max(1, min(12, n // 20 + 1))
        cuts = [(n * k) // shards for k in range(shards + 1)]

        def one(j):
            p = os.path.join(ctx.tmp, "calib-%d-%d.ndjson" % (rnd, j))
            part = idxs[cuts[j]:cuts[j + 1]]
            vf.write_ndjson(p, [evs[i] for i in part])
            res = ctx.validate_trace("Trace_VM.tla", "Trace_VM.cfg", p, len(part))
            os.unlink(p)
            return [(part[o["i"] - 1], o) for o in res["emitted"] if o.get("k") in ("calib", "query")]
        with ThreadPoolExecutor(max_workers=shards) as ex:
            return [x for part in ex.map(one, range(shards)) for x in part]
    todo = list(range(len(evs)))
    final = {}
    for rnd in range(8):
        outs = run_round(todo, rnd)
        again = set()
        for i, o in outs:
            if o["k"] == "query":
                evs[i]["horc"].append(dict(kind=o["kind"], **{"in": o["in"]}, out=list(HASH[o["kind"]](o["in"]))))
                again.add(i)
            else:
                final[i] = o
        todo = sorted(again)
        if not todo:
            break
    outs = sorted(final.items())
    bad, unm, exc = [], 0, 0
    for i, o in outs:
        if o["spec"] == "unmodelled":
            unm += 1
        elif o["spec"] == "excluded":
            exc += 1
        elif o["spec"] != o["expect"]:
            bad.append((vs[i], o))
    return dict(n=len(outs), unmodelled=unm, excluded=exc, bad=bad)


def run_cases(ctx, cases, three=True, tag="vm"):
    """Run the real engine on `cases` (crash-isolated) and return the recorded events."""
    cpath = os.path.join(ctx.tmp, "%s-cases.ndjson" % tag)
    vf.write_ndjson(cpath, cases)
    out = os.path.join(ctx.tmp, "%s.ndjson" % tag)
    start, crashes = 0, []
    while True:
        p = ctx.run_vh(["vm", "-cases", cpath, "-out", out, "-start", start, "-three=%s" % ("true" if three else "false")],
                       check=False, timeout=3000, as_limit_gb=8)
        intent = out + ".intent"
        if p.returncode == 0 and not os.path.exists(intent):
            break
        if not os.path.exists(intent):
            raise vf.Infra("vm driver failed rc=%d\n%s" % (p.returncode, p.stderr[-2000:]))
        idx = int(open(intent).read().strip())
        os.unlink(intent)
        crashes.append(idx)
        if len(crashes) > 200:
            raise vf.Infra("vm driver keeps crashing")
        # drop the partial trace of the crashing case, record the crash as its end
        lines = open(out).read().split("\n")
        keep = []
        for ln in lines:
            if not ln:
                continue
            keep.append(ln)
        # remove trailing events belonging to case idx (they start at its begin event)
        while keep and not (json.loads(keep[-1]).get("ev") == "end"):
            keep.pop()
        c = cases[idx]
        f, g = A.flagrec(c["flags"])
        le = lambda v: list(int(v).to_bytes(4, "little"))
        keep.append(json.dumps(dict(ev="begin", id=c["id"], case=idx, src=c["src"], unlock=c["unlock"], lock=c["lock"], flags=c["flags"],
                                    genesis=g, f=f, ver=le(c["ver"]), lt=le(c["lt"]), seq=le(c["seq"]), notx=c["notx"])))
        keep.append(json.dumps(dict(ev="end", outcome="crash", err=(p.stderr or "")[-300:], same=True, steps=0, calls=[])))
        open(out, "w").write("\n".join(keep) + "\n")
        start = idx + 1
    events = vf.read_ndjson(out)
    os.unlink(out)
    return events


def validate(ctx, events, shards=14):
    """Trace validation (sharded at trace boundaries) + hash obligations. Returns (rejects, stats)."""
    resets = [i for i, e in enumerate(events) if e["ev"] == "begin"]
    slim = []
    for e in events:
        if e["ev"] == "end":
            e2 = {k: e[k] for k in ("ev", "outcome", "same", "err", "calls", "cpos", "nodbg", "nodbgErr", "nodbgSame", "scribble", "scribbleErr",
                                    "scribbleSameSnapshots", "scribbleSameCalls", "fanout", "fanoutErr", "fanoutSameCalls") if k in e}
            slim.append(e2)
        elif e["ev"] == "begin":
            slim.append({k: e[k] for k in ("ev", "unlock", "lock", "genesis", "f", "ver", "lt", "seq", "sx") if k in e})
        else:
            slim.append(e)
    n = len(slim)
    workers = max(1, min(shards, len(resets)))
    # thorough: many more pieces than workers, so that one expensive piece (wide numbers, long
    # scripts) does not leave the other workers idle
    if ctx.tier == "thorough" and n > 20000:
        shards = max(shards * 6, n // 3000)
    shards = max(1, min(shards, len(resets)))
    cuts = [0]
    for k in range(1, shards):
        c = (n * k) // shards
        later = [r for r in resets if r >= c]
        if later and later[0] > cuts[-1]:
            cuts.append(later[0])
    cuts.append(n)
    ctx.specdir()
    from concurrent.futures import ThreadPoolExecutor

    def one(j):
        a, b = cuts[j], cuts[j + 1]
        path = os.path.join(ctx.tmp, "vmshard-%d-%d.ndjson" % (len(ctx.cov["tlc_runs"]), j))
        vf.write_ndjson(path, slim[a:b])
        res = ctx.validate_trace("Trace_VM.tla", "Trace_VM.cfg", path, b - a, timeout=2400)
        os.unlink(path)
        rej = [(a + r["i"] - 1, r["why"]) for r in res["rejects"]]
        obs = [o for o in res["emitted"] if o.get("k") == "hash"]
        for o in vf.check_hash_oracle(obs):
            if o["ref"] == 0:
                raise vf.Infra("a signature preimage produced by the harness fails its hash obligation (harness bug, not a verdict)")
            rej.append((a + o["ref"] - 1, dict(cls="hash", kind=o["kind"])))
        unm = sum(1 for o in res["emitted"] if o.get("k") == "unmodelled")
        return rej, len(obs), unm
    with ThreadPoolExecutor(max_workers=workers) as ex:
        parts = list(ex.map(one, range(len(cuts) - 1)))
    rejects = sorted((x for p in parts for x in p[0]), key=lambda r: r[0])
    return rejects, dict(hash_obligations=sum(p[1] for p in parts), unmodelled_traces=sum(p[2] for p in parts))


def stratified_sample(em, n, rng):
    """A sample of n model-emitted programs that does not depend on the order TLC's workers emitted them in and
    that covers every *opcode signature* (the opcodes of unlock + lock other than data pushes, in order, plus the era): programs
    are sorted, grouped by signature, and taken round-robin from the groups (random within a group)."""
    if len(em) <= n:
        return sorted(em, key=lambda o: (o["unlock"], o["lock"], json.dumps(o, sort_keys=True)))
    groups = {}
    for o in sorted(em, key=lambda o: (o["unlock"], o["lock"], json.dumps(o, sort_keys=True))):
        sig = (tuple(x for x in tokens_ops(bytes(o["unlock"])) + [-1] + tokens_ops(bytes(o["lock"])) if x > 0x4e or x == -1), o.get("genesis"))
        groups.setdefault(sig, []).append(o)
    keys = sorted(groups, key=lambda k: (k[0], str(k[1])))
    for k in keys:
        rng.shuffle(groups[k])
        # within a signature, programs the specification runs to completion are taken first (they exercise every
        # opcode of the signature; an early error exercises only a prefix)
        groups[k].sort(key=lambda o: 0 if o.get("st") == "err" else 1)
    out = []
    while len(out) < n:
        progressed = False
        for k in keys:
            if groups[k]:
                out.append(groups[k].pop())
                progressed = True
                if len(out) >= n:
                    break
        if not progressed:
            break
    return out


def trace_of(events, i):
    """(begin index, begin event, end event) of the trace containing event i"""
    b = i
    while events[b]["ev"] != "begin":
        b -= 1
    e = i
    while events[e]["ev"] != "end":
        e += 1
    return b, events[b], events[e]


def describe(beg, end=None, why=None, at=None):
    d = dict(unlock=A.disasm(beg["unlock"]), lock=A.disasm(beg["lock"]), unlock_hex=bytes(beg["unlock"]).hex(), lock_hex=bytes(beg["lock"]).hex(),
             flags="0x%x" % beg["flags"], genesis=beg["genesis"], src=beg.get("src"))
    if end:
        d["impl_outcome"], d["impl_err"] = end["outcome"], end.get("err", "")[:120]
    if why:
        d["why"] = {k: v for k, v in why.items() if k not in ("expds", "expas", "gotds", "gotas")}
        if "expds" in why:
            d["spec_ds"] = [bytes(x).hex()[:80] for x in why["expds"]][-8:]
            d["impl_ds"] = [bytes(x).hex()[:80] for x in why["gotds"]][-8:]
            d["spec_as"] = [bytes(x).hex()[:80] for x in why["expas"]][-4:]
            d["impl_as"] = [bytes(x).hex()[:80] for x in why["gotas"]][-4:]
    if at is not None:
        d["step"] = at
    return d


# ---------------------------------------------------------------------------------------------
# random programs / mutated vectors (direction B inputs; the judge is ScriptVM.tla)
EDGE = [b"", b"\x00", b"\x80", b"\x01", b"\x81", b"\x7f", b"\xff", b"\x02", b"\x10", b"\x11", b"\x00\x01", b"\x00\x80", b"\x01\x00",
        b"\xff\x7f", b"\xff\xff", b"\xff\x00", b"\xff\xff\xff\x7f", b"\xff\xff\xff\xff", b"\x00\x00\x00\x80", b"\x00\x00\x00\x80\x00",
        b"\xff\xff\xff\xff\x7f", b"\x00\x00\x00\x00\x01", b"\x00" * 7 + b"\x80\x00", b"\x00" * 8 + b"\x01", b"\x00" * 7 + b"\x80\x80", bytes(range(1, 9)), b"\xff" * 8 + b"\x7f", bytes([7]) * 33, b"\x01" * 75, b"\x02" * 76, b"\xab" * 255,
        b"\x05" * 256, b"\x03" * 520, b"\x04" * 521]
NONSIG_OPS = [op for op in range(79, 186) if op not in SIGOPS]
FLAG_POOL = ["P2SH", "DISCOURAGE_UPGRADABLE_NOPS", "CHECKLOCKTIMEVERIFY", "CHECKSEQUENCEVERIFY", "MINIMALDATA", "SIGPUSHONLY",
             "MINIMALIF", "UTXO_AFTER_GENESIS", "NULLDUMMY", "STRICTENC", "NULLFAIL", "DERSIG", "LOW_S"]


def minimal_push(x):
    if len(x) == 0:
        return b"\x00"
    if len(x) == 1 and 1 <= x[0] <= 16:
        return bytes([80 + x[0]])
    if x == b"\x81":
        return b"\x4f"
    return A.push(x)


def rand_item(rng):
    r = rng.random()
    if r < 0.7:
        return rng.choice(EDGE[:28])
    if r < 0.8:
        return rng.choice(EDGE)
    if r < 0.9:
        return A.scriptnum(rng.randint(-70000, 70000))
    return bytes(rng.getrandbits(8) for _ in range(rng.randint(1, 12)))


def rand_push(rng):
    x = rand_item(rng)
    r = rng.random()
    if r < 0.8:
        return minimal_push(x)
    if r < 0.9 and 0 < len(x) <= 75:
        return bytes([len(x)]) + x
    if r < 0.95 and len(x) <= 255:
        return bytes([76, len(x)]) + x
    return bytes([77]) + len(x).to_bytes(2, "little") + x


def rand_script(rng, n):
    out = b""
    depth = 0
    for _ in range(n):
        r = rng.random()
        if r < 0.45:
            out += rand_push(rng)
        elif r < 0.55:
            op = rng.choice([99, 100, 103, 104, 106, 105, 101])
            out += bytes([op])
        elif r < 0.97:
            out += bytes([rng.choice(NONSIG_OPS)])
        else:
            out += bytes([rng.choice([186, 200, 255, 80, 98, 137])])
    return out


def rand_flags(rng):
    v = 0
    for f in FLAG_POOL:
        if rng.random() < (0.5 if f == "UTXO_AFTER_GENESIS" else 0.25):
            v |= A.FLAGBITS[f]
    if rng.random() < 0.1:
        v |= A.FLAGBITS["CLEANSTACK"] | A.FLAGBITS["P2SH"]
    return v


def rand_txctx(rng):
    ver = rng.choice([1, 1, 2, 2, 0, 0xffffffff])
    lt = rng.choice([0, 1, 499999999, 500000000, 500000001, 0xffffffff, rng.getrandbits(32)])
    seq = rng.choice([0xffffffff, 0xfffffffe, 0, 1, 1 << 22, (1 << 22) | 5, 1 << 31, rng.getrandbits(32)])
    return ver, lt, seq


def random_cases(ctx, n, tag="rand"):
    rng = random.Random(ctx.seed * 7919 + 1)
    out = []
    for k in range(n):
        split = rng.random()
        if split < 0.3:
            u, l = b"", rand_script(rng, rng.randint(1, 14))
        else:
            u, l = rand_script(rng, rng.randint(0, 5)), rand_script(rng, rng.randint(1, 10))
        if rng.random() < 0.03:          # P2SH shaped
            redeem = rand_script(rng, rng.randint(1, 5))
            import hashlib
            h = hashlib.new("ripemd160", hashlib.sha256(redeem).digest()).digest()
            u, l = b"".join(minimal_push(rand_item(rng)) for _ in range(rng.randint(0, 2))) + A.push(redeem), b"\xa9\x14" + h + b"\x87"
        ver, lt, seq = rand_txctx(rng)
        out.append(mkcase("%s%d" % (tag, k), u, l, rand_flags(rng), tag, ver=ver, lt=lt, seq=seq))
    return out


def mutated_vectors(ctx, n):
    """node vectors with an opcode substituted, an operand replaced by an edge operand, or flags flipped"""
    rng = random.Random(ctx.seed * 104729 + 2)
    vs = [v for v in load_vectors() if not has_sigop(v["unlock"]) and not has_sigop(v["lock"]) and len(v["lock"]) < 600]
    out = []
    for k in range(n):
        v = rng.choice(vs)
        u, l, fl = bytearray(v["unlock"]), bytearray(v["lock"]), v["flags"]
        m = rng.random()
        if m < 0.35:
            fl ^= A.FLAGBITS[rng.choice(FLAG_POOL)]
        elif m < 0.7 and len(l):
            # substitute one opcode byte (walk the token structure to hit an opcode, not payload)
            pos, i, b = [], 0, bytes(l)
            while i < len(b):
                op = b[i]
                if op > 78:
                    pos.append(i)
                if 1 <= op <= 75:
                    i += 1 + op
                elif op in (76, 77, 78):
                    w = {76: 1, 77: 2, 78: 4}[op]
                    i += 1 + w + int.from_bytes(b[i + 1:i + 1 + w], "little")
                else:
                    i += 1
            if pos:
                l[rng.choice(pos)] = rng.choice(NONSIG_OPS)
        else:
            u = bytearray(bytes(u) + rand_push(rng)) if rng.random() < 0.5 else bytearray(rand_push(rng) + bytes(u))
        if rng.random() < 0.3:
            fl ^= A.FLAGBITS["UTXO_AFTER_GENESIS"]
        if has_sigop(u) or has_sigop(l):
            continue
        out.append(mkcase("mut%d" % k, bytes(u), bytes(l), fl, "mutated-vector"))
    return out


def p2sh_cases(ctx, n):
    """P2SH-shaped locking scripts (HASH160 <20> EQUAL) with matching / non-matching redeem scripts, push-only and
    non-push-only unlocking scripts, with and without the P2SH / CLEANSTACK / Genesis flags"""
    import hashlib
    rng = random.Random(ctx.seed * 2671 + 5)
    out = []
    redeems = [A.parse(x) for x in ["1", "0", "2 3 ADD 5 EQUAL", "DUP", "IF 1 ELSE 0 ENDIF", "1 1", "RETURN", "DEPTH 0 EQUAL", "NOP", "SIZE 0 EQUAL",
                                    "1 TOALTSTACK", "FROMALTSTACK", "0x4c", "VERIF", "CODESEPARATOR 1", "16 1ADD 17 EQUAL VERIFY 1"]]
    for k in range(n):
        redeem = rng.choice(redeems) if rng.random() < 0.7 else rand_script(rng, rng.randint(1, 6))
        if has_sigop(redeem):
            continue
        h = hashlib.new("ripemd160", hashlib.sha256(redeem).digest()).digest()
        if rng.random() < 0.15:
            h = bytes(20)                                      # hash mismatch
        lock = b"\xa9\x14" + h + b"\x87"
        args = b"".join(minimal_push(rand_item(rng)) for _ in range(rng.randint(0, 3)))
        unlock = args + A.push(redeem)
        r = rng.random()
        if r < 0.1:
            unlock = args + b"\x61" + A.push(redeem)           # not push only
        elif r < 0.15:
            unlock = args                                       # no serialized script
        fl = 0
        for name, p in (("P2SH", 0.8), ("CLEANSTACK", 0.3), ("UTXO_AFTER_GENESIS", 0.3), ("SIGPUSHONLY", 0.2), ("MINIMALDATA", 0.2), ("MINIMALIF", 0.2)):
            if rng.random() < p:
                fl |= A.FLAGBITS[name]
        if fl & A.FLAGBITS["CLEANSTACK"]:
            fl |= A.FLAGBITS["P2SH"]
        out.append(mkcase("p2sh%d" % k, unlock, lock, fl, "p2sh"))
    return out


def limit_cases(ctx):
    """programs sitting on each per-era limit and one past it"""
    G = A.FLAGBITS["UTXO_AFTER_GENESIS"]
    out = []
    k = 0

    def add(u, l, tag):
        nonlocal k
        for g in (0, G):
            out.append(mkcase("lim%d" % k, u, l, g, "limit-" + tag))
            k += 1
    for n in (519, 520, 521):                                   # element size
        add(b"", A.push(b"\x01" * n) + b"\x75\x51", "element")
        add(b"", b"\x00\x63" + A.push(b"\x01" * n) + b"\x68\x51", "element-unexecuted")
        add(b"", A.push(b"\x01" * (n - 260)) + A.push(b"\x02" * 260) + b"\x7e\x75\x51", "cat")
        add(b"", b"\x51" + A.push(A.scriptnum(n)) + b"\x80\x75\x51", "num2bin")
    for n in (499, 500, 501):                                   # op count
        add(b"", b"\x61" * (n - 1) + b"\x51\x61"[0:0] + b"\x51", "opcount")
        add(b"", b"\x00\x63" + b"\x61" * (n - 3) + b"\x68\x51", "opcount-unexecuted")
    for n in (998, 999, 1000, 1001):                            # stack depth (data + alt)
        add(b"", b"\x51" * n, "stack")
        add(b"", b"\x51" * (n - 1) + b"\x6b" + b"\x51", "stack-alt")
    for n in (9999, 10000, 10001):                              # script size
        add(b"", b"\x51" + b"\x61" * 100 + (A.push(b"\x00" * 500) + b"\x75") * 19 + b"\x00" * 0 + b"\x61" * 0, "size-base")
        body = A.push(b"\x00" * 500) + b"\x75"
        s = b"\x51"
        while len(s) + len(body) <= n:
            s += body
        s += b"\x00\x75" * ((n - len(s)) // 2)
        if len(s) < n:
            s += b"\x61" * (n - len(s))
        add(b"", s, "size")
        add(s, b"\x51", "size-unlock")
    for n in (3, 4, 5, 8, 9):                                   # numeric operand length
        v = b"\x01" * (n - 1) + b"\x01"
        add(b"", A.push(v) + b"\x8b\x75\x51", "numlen")
        add(b"", A.push(v) + A.push(v) + b"\x93\x75\x51", "numlen-add")
        add(b"", A.push(v) + b"\x81\x75\x51", "bin2num")
    for n in (20, 21):                                          # multisig key count without tx context is unmodelled: use PICK depth
        add(b"", b"\x51" * n + A.push(A.scriptnum(n - 1)) + b"\x79", "pick")
        add(b"", b"\x51" * n + A.push(A.scriptnum(n)) + b"\x79", "pick-out-of-range")
    return out
