"""C08 - execution has no side effects on caller data and stack items never alias."""
import random

from checks import c05
from checks import scriptasm as A
from checks import vmcommon as V
from lib import vf

LEVEL = "model_checking"


def classify(events, i, why):
    b, beg, end = V.trace_of(events, i)
    cls = why.get("cls")
    if cls == "sideeffect":
        return "caller-data-modified", "Execute changed the caller's script bytes or the transaction's serialisation"
    if cls in ("stack", "verdict") and (why.get("op") in (172, 173, 174, 175) or str(beg.get("src", "")).startswith(("p2pk", "multisig"))):
        return None, None            # what a signature opcode pushes is C06's business, not aliasing
    if cls == "stack":
        # which opcode ran, and was a *different* item than the ones it operates on changed?
        return "stack:%s" % c05.opname(why["op"]), "after %s the stacks differ from the specification (an item other than the result changed: aliasing)" % c05.opname(why["op"])
    if cls == "total":
        return "no-verdict:%s:%s" % (why["outcome"], c05.opname(why["op"]) if why.get("op", -1) >= 0 else "?"), "execution ends with %s" % why["outcome"]
    return None, None


CASES = None


def handle(ctx, events, rejects):
    for i, why in rejects:
        key, what = classify(events, i, why)
        if key is None:
            continue
        b, beg, end = V.trace_of(events, i)
        ctx.candidate(key, what, dict(case=CASES[beg["case"]] if CASES and beg.get("case") is not None and beg["case"] < len(CASES) else
                                      V.mkcase(beg["id"], beg["unlock"], beg["lock"], beg["flags"], beg.get("src", "replay")),
                                      summary=V.describe(beg, end, why, i - b)))


def run(ctx):
    ctx.cov["rule"] = ("programs = (item pushed) x (provenance: DUP, PICK, OVER, TUCK, 2DUP, 3DUP, IFDUP, alt-stack copy, ROLL, SPLIT halves) x "
                       "(transformer: every value-changing opcode incl. shifts, BIN2NUM on non-minimal values, NUM2BIN, CAT, SPLIT, bitwise) "
                       "x tail, both eras, enumerated exhaustively by TLC (MC_ScriptVM family alias); the real engine runs each and every "
                       "item of both stacks after every instruction is compared with ScriptVM (values, so aliasing is impossible in the "
                       "spec); plus before/after comparison of caller-held scripts and tx bytes on every execution (also random programs)")
    ctx.assumptions += ["stack snapshots come from the public debugger API (deep copies)"]
    r = ctx.tlc("MC_ScriptVM.tla", "MC_ScriptVM_alias.cfg", workers=16, heap="8g")
    em = [o for o in r["emitted"] if o.get("k") == "case" and o["st"] not in ("unmodelled", "toobig")]
    ctx.cov["tlc_generated_cases"] = len(em)
    rng = random.Random(ctx.seed)
    em = V.stratified_sample(em, ctx.pick(6000, 10**9), rng)
    # second family (computed items, both copies grown): small, replayed completely
    r2 = ctx.tlc("MC_ScriptVM.tla", "MC_ScriptVM_alias2.cfg", workers=8, heap="6g")
    em += sorted([o for o in r2["emitted"] if o.get("k") == "case" and o["st"] not in ("unmodelled", "toobig")], key=lambda o: (o["unlock"], o["lock"], o["genesis"]))
    cases = []
    for k, o in enumerate(em):
        fl = (A.FLAGBITS["UTXO_AFTER_GENESIS"] if o["genesis"] else 0) | (A.FLAGBITS["MINIMALDATA"] if o["md"] else 0) | \
             (A.FLAGBITS["MINIMALIF"] if o["mi"] else 0) | A.FLAGBITS["CHECKLOCKTIMEVERIFY"] | A.FLAGBITS["CHECKSEQUENCEVERIFY"]
        cases.append(V.mkcase("alias%d" % k, o["unlock"], o["lock"], fl, "tlc-alias"))
    ctx.cov["tlc_generated_cases_replayed"] = len(cases)
    cases += V.random_cases(ctx, ctx.pick(1500, 30000), tag="rnd8")
    # signature opcodes work on a copy of the transaction with the script code in place of the spent script
    # (code separators make the two differ): the caller's transaction must only ever record the spent output
    spath = __import__("os").path.join(ctx.tmp, "c08-sig-cases.ndjson")
    ctx.run_vh(["sigs", "-out", spath, "-n", ctx.pick(300, 4000)])
    cases += vf.read_ndjson(spath)
    global CASES
    CASES = cases
    events = V.run_cases(ctx, cases, three=False)
    rejects, st = V.validate(ctx, events)
    ctx.cov.update(st)
    handle(ctx, events, rejects)
    ntr = sum(1 for e in events if e["ev"] == "begin")
    ctx.cov["traces_validated_against_impl"] += ntr
    ctx.count_cases(ntr, {(bytes(e["unlock"]).hex(), bytes(e["lock"]).hex(), e["flags"]) for e in events if e["ev"] == "begin"})
    begs = [e for e in events if e["ev"] == "begin"]
    for e in begs[:3]:
        ctx.sample(V.describe(e))


def replay(ctx, case):
    global CASES
    CASES = [case["case"]["case"]]
    events = V.run_cases(ctx, CASES, three=False)
    rejects, st = V.validate(ctx, events, shards=1)
    handle(ctx, events, rejects)
