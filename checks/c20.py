"""C20 - ordinals sale/bid flows yield valid transactions protecting seller and buyer."""
import os

from lib import vf

LEVEL = "model_checking"


def classify(e, why):
    if e["ev"] == "panic":
        return "panic:" + e.get("flow", "inscribe"), "ordinals flow panics: " + e.get("panic", "")[:100]
    if e["ev"] == "inscribe":
        return "inscribe:" + why["why"], "Inscribe/ParseInscription round trip: %s (content type %d bytes, data %d bytes)" % (why["why"], len(e["ct"]), len(e["data"]))
    w = why["why"]
    funds = "extra-utxos-cover-fee" if e["ok"] else "n/a"
    return "%s:%s" % (w, e["flow"]), "%s flow: %s (price %d, utxos %s, quote %s)" % (e["flow"], w, e["price"], e["us"], e["q"])


def judge(ctx, events):
    rejects = vf.validate_events(ctx, "Trace_Ord.tla", "Trace_Ord.cfg", events, shards=8)
    for i, why in rejects:
        e = events[i]
        key, what = classify(e, why)
        ctx.candidate(key, what, dict(event={k: v for k, v in e.items() if k not in ("script", "data")}, summary={k: v for k, v in e.items() if k in ("flow", "price", "us", "q", "ok", "err", "valid", "tx")}))


def run(ctx):
    ctx.cov["rule"] = ("ord = ListOrdinalForSale + AcceptOrdinalSaleListing(2Dummies) and MakeBidToBuy1SatOrdinal(2Dummies) + AcceptBidToBuy1SatOrdinal(2Dummies) "
                       "with fresh seller/buyer keys on every scenario of MC_Ordinals (prices {1,2,1000}, 2-3 funding UTXOs from {1,p-1,p,p+1,p+30,p+5000}, "
                       "two quotes) and random scenarios; every input of a completed transaction is run through the real interpreter; Trace_Ord requires: "
                       "all inputs accepted, exactly one ordinal input routed (FIFO) into the buyer's ordinal output, the seller's payment at the ordinal "
                       "input's index with the requested value, fee >= quote for the real size, and for listings the shape the specification builds; "
                       "inscribe = Inscribe + ParseInscription over content types and payloads 0..65536 bytes; distinct = (flow, price, utxos, quote)")
    ctx.assumptions += ["the interpreter used as the validity oracle for inputs is the one checked by C05/C06",
                        "output roles are observed by script identity (distinct scripts per role in the harness)"]
    r = ctx.tlc("MC_Ordinals.tla", "MC_Ordinals.cfg")
    cases = [o for o in r["emitted"] if o.get("k") == "case"]
    ctx.cov["tlc_generated_cases"] = len(cases)
    import random
    if len(cases) > ctx.pick(500, 10**9):
        cases = random.Random(ctx.seed).sample(cases, ctx.pick(500, 10**9))
    ctx.cov["tlc_generated_cases_replayed"] = len(cases)
    cpath = os.path.join(ctx.tmp, "c20cases.ndjson")
    vf.write_ndjson(cpath, cases)
    out = os.path.join(ctx.tmp, "c20.ndjson")
    ctx.run_vh(["ord", "-cases", cpath, "-out", out, "-n", ctx.pick(120, 12000)], timeout=3000)
    events = vf.read_ndjson(out)
    os.unlink(out)
    judge(ctx, events)
    ctx.cov["traces_validated_against_impl"] += len(events)
    oe = [e for e in events if e["ev"] == "ord"]
    ctx.cov["completed"] = {f: sum(1 for e in oe if e["flow"] == f and e["ok"]) for f in ("list", "list2d", "bid", "bid2d")}
    ctx.cov["inputs_verified_by_interpreter"] = sum(len(e["valid"]) for e in oe)
    ctx.count_cases(len(events), {vf.json.dumps([e.get("flow"), e.get("price"), e.get("us"), e.get("q"), e.get("ct"), len(e.get("data", []))]) for e in events})
    for e in [x for x in oe if x["ok"]][:2] + [x for x in events if x["ev"] == "inscribe"][:1]:
        ctx.sample({k: v for k, v in e.items() if k in ("ev", "flow", "price", "us", "q", "ok", "valid", "tx", "ct")})


def replay(ctx, case):
    e = case["case"]["event"]
    if e["ev"] != "ord":
        return run(ctx)
    cpath = os.path.join(ctx.tmp, "one.ndjson")
    vf.write_ndjson(cpath, [dict(flow=e["flow"], price=e["price"], us=e["us"], q=e["q"], sx=e.get("sellerSlen", 25) - 25)])
    out = os.path.join(ctx.tmp, "one-out.ndjson")
    ctx.run_vh(["ord", "-cases", cpath, "-out", out, "-n", 0])
    judge(ctx, [x for x in vf.read_ndjson(out) if x["ev"] == "ord"])
