"""Shared machinery for C02 (FORKID digest) and C03 (legacy digest)."""
import json
import os

from lib import vf

DATA = os.path.join(vf.REPO, "bscript/interpreter/data")


def calibration_events(alg, limit, seed, need_no_codesep=True):
    name = "sighash_bip143.json" if alg == "forkid" else "sighash_legacy.json"
    rows = [r for r in json.load(open(os.path.join(DATA, name))) if len(r) == 5]
    import random
    random.Random(seed).shuffle(rows)
    evs = []
    for raw, script, idx, ht, digest in rows:
        sc = bytes.fromhex(script)
        if need_no_codesep and 0xab in sc:
            # the node strips OP_CODESEPARATOR from the script code before hashing; that is the
            # caller's job for go-bt (C03) - vectors containing the byte anywhere are left out
            continue
        evs.append(dict(ev="calib", alg=alg, raw=list(bytes.fromhex(raw)), code=list(sc), idx=idx,
                        ht4=list((ht & 0xffffffff).to_bytes(4, "little")), expect=list(bytes.fromhex(digest))))
        if len(evs) >= limit:
            break
    return evs


def concretise(segs):
    out = b""
    for s in segs:
        out += bytes(s["b"]) if s["t"] == "lit" else vf.sha256d(s["of"])
    return out


def check_calibration(emitted):
    """The specification's preimage, hashed by python, must be the node's digest."""
    n = 0
    for o in emitted:
        if o.get("k") != "calib":
            continue
        n += 1
        if not o["ok"]:
            raise vf.Infra("calibration: spec reports an error for node vector %d" % o["i"])
        pre = concretise(o["segs"])
        got = pre if o["one"] else vf.sha256d(pre)
        if got[::-1] != bytes(o["expect"]):
            raise vf.Infra("calibration failure: SigHash.tla disagrees with node vector %d: %s vs %s" % (o["i"], got[::-1].hex(), bytes(o["expect"]).hex()))
    return n


def check_obligations(emitted):
    obs = [o for o in emitted if o.get("k") == "hash"]
    bad = vf.check_hash_oracle(obs)
    return len(obs), bad


def classify(e, why):
    if e["outcome"] == "panic":
        return "panic", "signature-hash computation panics: %s" % e.get("panic", "")[:100]
    if not e["same"]:
        return "tx-mutated", "computing the signature hash changed the transaction"
    if (e["outcome"] == "ok") != why.get("specok"):
        return ("accepts-invalid-args" if e["outcome"] == "ok" else "rejects-valid-args"), \
            "outcome %s where the specification says %s (idx=%d ht=0x%02x)" % (e["outcome"], "ok" if why.get("specok") else "error", e["idx"], e["ht4"][0])
    ht = e["ht4"][0]
    base = {1: "all", 2: "none", 3: "single"}.get(ht & 31, "undefined-base")
    return "preimage:%s%s" % (base, "|acp" if ht & 0x80 else ""), "preimage or digest differs from the specification (idx=%d ht=0x%02x)" % (e["idx"], ht)


def summary(e):
    return dict(alg=e["alg"], idx=e["idx"], ht="0x%02x" % e["ht4"][0], nin=len(e["tx"]["ins"]), nout=len(e["tx"]["outs"]),
                outcome=e["outcome"], pre_hex=bytes(e["pre"]).hex()[:160], sigh=bytes(e["sigh"]).hex())


def run_alg(ctx, alg):
    # 1. calibration of the specification against the node's vectors (not go-bt)
    cal = calibration_events(alg, ctx.pick(150, 1000), ctx.seed)
    p = os.path.join(ctx.tmp, "calib.ndjson")
    vf.write_ndjson(p, cal)
    res = ctx.validate_trace("Trace_SigHash.tla", "Trace_SigHash.cfg", p, len(cal))
    ctx.cov["calibration_vectors"] = check_calibration(res["emitted"])
    # 2. exhaustive model + cases
    g = ctx.tlc("MC_SigHash.tla", ctx.pick("MC_SigHash_q.cfg", "MC_SigHash.cfg"))
    want = (lambda ht: ht & 0x40) if alg == "forkid" else (lambda ht: not ht & 0x40)
    cases = [o for o in g["emitted"] if o.get("k") == "case" and want(o["ht"])]
    if alg == "legacy":
        # C03 quantifies over transactions whose previous txids are all 32 bytes (Tx.Clone, used by the
        # legacy algorithm, cannot even re-parse others): a missing txid is only exercised on the signed input
        cases = [c for c in cases if all(i["hasid"] or k == c["idx"] for k, i in enumerate(c["tx"]["ins"]))]
    ctx.cov["tlc_generated_cases"] = len(cases)
    import random
    rng = random.Random(ctx.seed)
    nrep = ctx.pick(4000, 10**9)
    if len(cases) > nrep:
        cases = rng.sample(cases, nrep)
    ctx.cov["tlc_generated_cases_replayed"] = len(cases)
    cpath = os.path.join(ctx.tmp, "sh-cases.ndjson")
    vf.write_ndjson(cpath, cases)
    out = os.path.join(ctx.tmp, "sh.ndjson")
    ctx.run_vh(["sighash", "-alg", alg, "-cases", cpath, "-out", out] + ctx.pick(["-n", "150", "-per", "10"], ["-n", "12000", "-per", "16"]))
    events = vf.read_ndjson(out)
    os.unlink(out)
    judge(ctx, events)
    for e in events[:1] + events[-2:]:
        ctx.sample(summary(e))


def judge(ctx, events):
    rejects = validate_with_obligations(ctx, events)
    for i, why in rejects:
        e = events[i]
        key, what = classify(e, why)
        case = dict(event=e, summary=summary(e))
        if e.get("k"):
            # evaluated after earlier evaluations / in-place edits of the same object: keep the whole chain
            j = i - e["k"]
            case["chain"] = [dict(tx=x["tx"], idx=x["idx"], ht=x["ht4"][0]) for x in events[j:i + 1] if x.get("obj") == e.get("obj")]
        ctx.candidate(key, what, case)
    ctx.cov["traces_validated_against_impl"] += len(events)
    ctx.count_cases(len(events), {(e["idx"], e["ht4"][0], bytes(e["pre"]).hex()) for e in events if e["outcome"] == "ok"})


def validate_with_obligations(ctx, events, shards=12):
    """Sharded trace validation; hash obligations emitted by TLC are verified with hashlib and a
    failed obligation turns its event into a reject."""
    from concurrent.futures import ThreadPoolExecutor
    n = len(events)
    shards = max(1, min(shards, n // 50 + 1))
    cuts = [(n * k) // shards for k in range(shards + 1)]
    ctx.specdir()

    def one(j):
        a, b = cuts[j], cuts[j + 1]
        path = os.path.join(ctx.tmp, "sh-shard-%d.ndjson" % j)
        vf.write_ndjson(path, events[a:b])
        res = ctx.validate_trace("Trace_SigHash.tla", "Trace_SigHash.cfg", path, b - a)
        os.unlink(path)
        rej = {a + r["i"] - 1: r["why"] for r in res["rejects"]}
        nobs, bad = check_obligations(res["emitted"])
        for o in bad:
            i = a + o["ref"] - 1
            rej.setdefault(i, dict(ev="pre", alg=events[i]["alg"], specok=True, hash="mismatch"))
        return rej, nobs
    with ThreadPoolExecutor(max_workers=shards) as ex:
        parts = list(ex.map(one, range(shards)))
    out = {}
    nobs = 0
    for rej, k in parts:
        out.update(rej)
        nobs += k
    ctx.cov["hash_obligations_checked"] = ctx.cov.get("hash_obligations_checked", 0) + nobs
    return sorted(out.items())


def replay(ctx, case, alg):
    e = case["case"]["event"]
    one = os.path.join(ctx.tmp, "one.ndjson")
    if case["case"].get("chain"):
        vf.write_ndjson(one, [dict(k="case", chain=case["case"]["chain"])])
    else:
        vf.write_ndjson(one, [dict(k="case", tx=e["tx"], idx=e["idx"], ht=e["ht4"][0], force=True)])
    out = os.path.join(ctx.tmp, "one-out.ndjson")
    ctx.run_vh(["sighash", "-alg", alg, "-only", "-cases", one, "-out", out])
    judge(ctx, vf.read_ndjson(out))
