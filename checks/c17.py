"""C17 - BIP276 text encoding round-trips and follows the specified layout."""
import os

from lib import vf

LEVEL = "model_checking"


def sha4hex(text_ints):
    if len(text_ints) < 8:
        return []
    return [ord(c) for c in vf.sha256d(text_ints[:-8])[:4].hex()]


def annotate(events):
    """hash oracle (python hashlib): ck = checksum of everything before the last 8 characters"""
    for e in events:
        e["ck"] = sha4hex(e.get("text", []))
    return events


def hexpair_val(t, i):
    try:
        return int(bytes(t[i:i + 2]).decode(), 16)
    except Exception:
        return None


def classify(e, why):
    ev = e["ev"]
    if ev == "panic":
        return "panic", "panic in BIP276 call: %s" % e.get("panic")
    t = e["text"]
    if ev == "enc":
        # is it the specified layout with the two fields swapped?
        body = bytes(e["prefix"]) + b":" + b"%02x%02x" % (e["network"], e["version"]) + bytes(e["data"]).hex().encode()
        swapped = list(body + vf.sha256d(body)[:4].hex().encode())
        if t == swapped and e["version"] != e["network"]:
            return "enc-network-before-version", "EncodeBIP276 writes network before version (v=%d n=%d)" % (e["version"], e["network"])
        return "enc-layout", "EncodeBIP276 text is not prefix:vvnn<hex><ck8> (v=%d n=%d)" % (e["version"], e["network"])
    expect = why.get("expect")
    if expect and not e["ok"]:
        k = t.index(58) + 1
        f1, f2 = bytes(t[k:k + 2]).decode(), bytes(t[k + 2:k + 4]).decode()
        if len(t) == k + 12 and f1 == f2 and f1.isdigit() and int(f1) < 10:
            return ev + "-rejects-valid:empty-data", "%s rejects a valid encoding of an empty payload" % ev
        if f1 == f2 and f1.isdigit() and int(f1) < 10:
            return ev + "-rejects-valid", "%s rejects a valid encoding (fields %s/%s)" % (ev, f1, f2)
        return ev + "-rejects-valid:fields-differ-or-not-single-decimal-digit", \
            "%s rejects a valid encoding whose version/network differ or are not 01..09 (fields %s/%s)" % (ev, f1, f2)
    if e["ok"] and not expect:
        return ev + "-accepts-invalid", "%s accepts text that is not a valid encoding" % ev
    return ev + "-wrong-fields", "%s returns fields that are not the encoded ones" % ev


def drive(ctx, cases_path, out, extra):
    args = ["c17", "-out", out] + extra
    if cases_path:
        args += ["-cases", cases_path]
    ctx.run_vh(args)
    events = annotate(vf.read_ndjson(out))
    vf.write_ndjson(out, events)
    return events


def judge(ctx, events, path):
    res = ctx.validate_trace("Trace_BIP276.tla", "Trace_BIP276.cfg", path, len(events), heap="4g")
    for r in res["rejects"]:
        e = events[r["i"] - 1]
        key, what = classify(e, r["why"])
        ctx.candidate(key, what, dict(event=e))
    return res


def run(ctx):
    ctx.cov["rule"] = ("cases = EncodeBIP276/DecodeBIP276/ValidateAddress calls on (a) every record and single-character "
                       "corruption enumerated by TLC from MC_BIP276 (b) (version,network) pairs x prefixes x payload lengths "
                       "and corruptions at every position; distinct = distinct (event kind, text); non-trivial = the real call "
                       "ran and its result was judged by Trace_BIP276")
    ctx.assumptions += ["SHA-256d is collision free on the explored texts (checksum is an uninterpreted function in the spec; "
                        "values recomputed by python hashlib)", "TLC, python hashlib"]
    # 1. design: exhaustive model
    ctx.tlc("MC_BIP276.tla", "MC_BIP276.cfg")
    # 2. generator: every (record, corruption) of the model becomes a case for the real code
    g = ctx.tlc("MC_BIP276.tla", "MC_BIP276_gen.cfg", count=False)
    cases = [o for o in g["emitted"] if o.get("k") == "case"]
    cpath = os.path.join(ctx.tmp, "c17cases.ndjson")
    vf.write_ndjson(cpath, cases)
    # 3. run the real code, 4. judge with the trace specification
    out = os.path.join(ctx.tmp, "c17.ndjson")
    extra = ctx.pick(["-corrupt", "12"], ["-all", "-corrupt", "1000"])
    events = drive(ctx, cpath, out, extra)
    judge(ctx, events, out)
    # one payload above half a megabyte (text above a million characters), on its own (13 MB of trace)
    out2 = os.path.join(ctx.tmp, "c17big.ndjson")
    big = drive(ctx, None, out2, ["-big"])
    judge(ctx, big, out2)
    os.unlink(out2)
    events = events + big
    ctx.cov["traces_validated_against_impl"] += len(events)
    ctx.count_cases(len(events), {(e["ev"], bytes(e.get("text", [])).hex()) for e in events})
    ctx.cov["tlc_generated_cases_replayed"] = len(cases)
    for e in events[:1] + events[len(events) // 2:len(events) // 2 + 2]:
        ctx.sample(dict(ev=e["ev"], text=bytes(e["text"]).decode("latin1")[:200], ok=e.get("ok"), version=e.get("version"), network=e.get("network")))


def replay(ctx, case):
    e = case["case"]["event"]
    out = os.path.join(ctx.tmp, "one.ndjson")
    # re-run the single call on the real code
    one = os.path.join(ctx.tmp, "onecase.ndjson")
    if "version" in e and ("panic" not in e or "prefix" in e) and e["ev"] in ("enc", "panic"):
        vf.write_ndjson(one, [dict(k="case", rec=dict(prefix=e["prefix"], version=e["version"], network=e["network"], data=e["data"]), cpos=0, cch=0)])
    else:
        vf.write_ndjson(one, [dict(k="text", text=e["text"], ev=e["ev"])])
    ctx.run_vh(["c17", "-only", "-cases", one, "-out", out])
    events = annotate(vf.read_ndjson(out))
    vf.write_ndjson(out, events)
    judge(ctx, events, out)
