"""C03 - legacy signature hash equals the original Satoshi algorithm incl. the SINGLE bug."""
from checks import c02, sighash

LEVEL = "model_checking"


def run(ctx):
    ctx.cov["rule"] = c02.RULE % ("Legacy", "without")
    ctx.assumptions += c02.ASSUME
    sighash.run_alg(ctx, "legacy")


def replay(ctx, case):
    sighash.replay(ctx, case, "legacy")
