"""X01 - (extension, not a listed property) the transaction builder as a state machine.

TxBuild.tla specifies every mutating builder call and every observer over a table of live objects;
MC_TxBuild explores all call sequences over a boundary menu (invariants tie wire format, fee sizes and
observers together) and emits them; they are replayed into the real library together with random call
sequences and the recorded traces are validated against the specification (Trace_TxBuild): reply class,
every observer of the object acted on, and *no change at all* in any other live object."""
import os

from lib import vf

LEVEL = "model_checking"


def run_driver(ctx, n, cases=None, length=8):
    out = os.path.join(ctx.tmp, "txbuild.ndjson")
    args = ["txbuild", "-out", out, "-n", n, "-len", length]
    if cases is not None:
        cpath = os.path.join(ctx.tmp, "txbuild-cases.ndjson")
        vf.write_ndjson(cpath, cases)
        args += ["-cases", cpath]
    ctx.run_vh(args)
    ev = vf.read_ndjson(out)
    os.unlink(out)
    return ev


def validate(ctx, events, shards=12):
    resets = [i for i, e in enumerate(events) if e["ev"] == "begin"]
    obl = []
    rejects = vf.validate_events(ctx, "Trace_TxBuild.tla", "Trace_TxBuild.cfg", events, shards=shards, resets=resets, obligations=obl)
    seen = {}
    for o in obl:
        seen.setdefault((o["kind"], bytes(o["in"]), bytes(o["out"])), o)
    bad = vf.check_hash_oracle(list(seen.values()))
    ctx.cov["hash_obligations"] = ctx.cov.get("hash_obligations", 0) + len(seen)
    for o in bad:
        rejects.append((o["ref"], dict(cls="step", op=events[o["ref"]]["op"]["k"], model="ok", impl=events[o["ref"]]["res"],
                                       fields=[dict(f="hash:" + o["kind"], who="target")])))
    return rejects


def seq_of(events, i):
    j = i
    while events[j]["ev"] != "begin":
        j -= 1
    return [dict(o=e["o"], op=e["op"]) for e in events[j + 1:i + 1]]


def brief(op):
    return {k: (v if not isinstance(v, list) or len(v) < 12 else "[%d items]" % len(v)) for k, v in op.items()}


def handle(ctx, events, rejects):
    for i, why in rejects:
        e = events[i]
        if why.get("cls") == "new":
            ctx.candidate("newtx", "a fresh NewTx() does not have the specified observers", dict(ops=[]))
            continue
        if why.get("cls") != "step":
            ctx.candidate("trace:" + str(why.get("cls")), "unexpected event", dict(ops=[], why=why))
            continue
        fields = sorted("%s%s" % (f["f"], "" if f["who"] == "target" else "@other-object") for f in why["fields"])
        alias = any(f["who"] == "other" for f in why["fields"])
        key = "%s:%s" % (e["op"]["k"], "aliasing" if alias else ("reply" if "reply" in fields else "state"))
        what = "call %s: model reply %s / library %s; differing observers %s" % (e["op"]["k"], why.get("model"), why.get("impl"), fields)
        ctx.candidate(key, what, dict(ops=seq_of(events, i), why=why, last=brief(e["op"])))


def run(ctx):
    ctx.cov["rule"] = ("call sequences on live *bt.Tx objects (From, FromUTXOs, AddOutput, PayTo, AddP2PKHOutputFromPubKeyHashStr/PubKeyBytes, "
                       "AddHashPuzzleOutput, AddOpReturn(Parts)Output, InsertInputUnlockingScript, field writes, Change, ChangeToExistingOutput, "
                       "FillAllInputs, Clone, Bytes/ExtendedBytes + NewTxFromBytes): all sequences of MC_TxBuild's menu up to Depth (2 quick / 3 "
                       "thorough) and random sequences; after every call the 13 observers of every live object (Bytes, ExtendedBytes, TxID, "
                       "Size, counts, totals, IsCoinbase, HasDataOutputs, InputIdx/OutputIdx, PreviousOutHash, SequenceHash) must equal "
                       "TxBuild!View of the specification's object table; hash values via the hash oracle; distinct = (sequence)")
    if ctx.tier == "thorough":
        ctx.apalache("Add64Ind.tla", "Wraps", timeout=900)   # 64-bit wrapping sums, for all operands (symbolic, ~1 min)
    r = ctx.tlc("MC_TxBuild.tla", ctx.pick("MC_TxBuild.cfg", "MC_TxBuild_t.cfg"))
    cases = [o for o in r["emitted"] if o.get("k") == "seq"]
    ctx.cov["tlc_generated_cases"] = len(cases)
    if len(cases) > ctx.pick(1200, 60000):
        import random
        cases = random.Random(ctx.seed).sample(cases, ctx.pick(1200, 60000))
    ctx.cov["tlc_generated_cases_replayed"] = len(cases)
    events = run_driver(ctx, ctx.pick(600, 40000), cases)
    rejects = validate(ctx, events)
    handle(ctx, events, rejects)
    ops = [e for e in events if e["ev"] == "op"]
    ctx.cov["traces_validated_against_impl"] += sum(1 for e in events if e["ev"] == "begin")
    ctx.count_cases(len(ops), {vf.json.dumps([e["o"], e["op"]], sort_keys=True) for e in ops})
    ctx.cov["calls_by_kind"] = {k: sum(1 for e in ops if e["op"]["k"] == k) for k in sorted({e["op"]["k"] for e in ops})}
    ctx.cov["replies"] = {k: sum(1 for e in ops if e["res"] == k) for k in sorted({e["res"] for e in ops})}
    for e in ops[:1] + ops[-2:]:
        ctx.sample(dict(o=e["o"], op=brief(e["op"]), res=e["res"], objects=len(e["views"])))


def replay(ctx, case):
    ops = case["case"]["ops"]
    events = run_driver(ctx, 0, [dict(k="seq", ops=ops)])
    rejects = validate(ctx, events, shards=1)
    handle(ctx, events, rejects)
