"""C10 - change never creates value, never underpays the quoted fee, never burns change."""
from checks import builder as B
from lib import vf

LEVEL = "model_checking"


def classify(e):
    if e["ev"] == "panic":
        return "panic", "change operation panics: " + e.get("panic", "")[:100]
    pre, post = e["pre"], e["post"]
    pin, pout = B.sums(pre)
    qin, qout = B.sums(post)
    nout = len(pre["outs"])
    d = e["dest"]
    tag = "existing" if d["kind"] == "existing" else ("script%d" % d["slen"])
    if not e["ok"]:
        return "error:" + tag, "change fails (%s) although inputs cover outputs and all inputs are estimable" % e.get("err", "")[:60]
    if qout > qin:
        return "creates-value:" + tag, "outputs (%d) exceed inputs (%d) after change" % (qout, qin)
    added = post != pre
    band = "n<252" if nout < 252 else ("n=252" if nout == 252 else "n>252")
    if added:
        return "fee-out-of-bounds:%s:%s" % (tag, band), "fee left after change (%d) is outside [quote, quote+slack] (dest %s, %d outputs before)" % (qin - qout, tag, nout)
    return "burns-change:%s:%s" % (tag, band), "no change added although more than dust remains after the change fee (available %d)" % (pin - pout)


def handle(ctx, events, rejects):
    for i, why in rejects:
        e = events[i]
        if why.get("cls") not in ("c10", "any") or e["ev"] not in ("change", "panic"):
            continue
        if e["ev"] == "panic" and "dest" not in e:
            continue
        key, what = classify(e)
        ctx.candidate(key, what, dict(event=e, summary=dict(pre=B.short(e["pre"]), post=B.short(e["post"]), q=e["q"], dest=e["dest"], ok=e["ok"], err=e.get("err"))))


def run(ctx):
    ctx.cov["rule"] = ("change = Change / ChangeToAddress / ChangeToExistingOutput on (a) every scenario of MC_FeeMath (output counts 251..253, amounts "
                       "around fee/dust, 6 quotes, 5 destinations, 1-2 signed/unsigned inputs) (b) random P2PKH/inscription-funded transactions "
                       "with data outputs, boundary output counts, random quotes and destinations, amounts tuned to need+delta; judged by "
                       "FeeMath!ChangeRel (pre-existing outputs untouched, no value created, fee in [quote, quote + fee(9 bytes) + 9], no-change "
                       "only when remaining <= dust); distinct = (pre, quote, dest)")
    ctx.assumptions += ["amounts are kept below 10^8 and bytes*rate below 2^31 so TLC integers are exact",
                        "ChangeRel is the property-level relation; the code-shaped ChangeAlg is only checked against it inside TLC (Refines)"]
    r = ctx.tlc("MC_FeeMath.tla", "MC_FeeMath.cfg")
    cases = [o for o in r["emitted"] if o.get("k") == "case"]
    ctx.cov["tlc_generated_cases"] = len(cases)
    cases = B.sample(ctx, cases, ctx.pick(1500, 10**9))
    ctx.cov["tlc_generated_cases_replayed"] = len(cases)
    events = B.run_driver(ctx, "change", ctx.pick(1500, 250000), cases)
    rejects = B.validate(ctx, events)
    handle(ctx, events, rejects)
    ch = [e for e in events if e["ev"] == "change"]
    ctx.cov["traces_validated_against_impl"] += len(events)
    ctx.count_cases(len(ch), {vf.json.dumps([e["pre"], e["q"], e["dest"]], sort_keys=True) for e in ch})
    ctx.cov["change_added"] = sum(1 for e in ch if e["ok"] and e["post"] != e["pre"])
    ctx.cov["change_not_added"] = sum(1 for e in ch if e["ok"] and e["post"] == e["pre"])
    ctx.cov["change_errors"] = sum(1 for e in ch if not e["ok"])
    for e in ch[:2] + ch[-2:]:
        ctx.sample(dict(pre=B.short(e["pre"]), q=e["q"], dest=e["dest"], ok=e["ok"], fee_left=B.sums(e["post"])[0] - B.sums(e["post"])[1]))


def replay(ctx, case):
    e = case["case"]["event"]
    # rebuild an equivalent transaction from the abstract projection
    pre = dict(ins=[dict(sats=i["sats"], ulen=i["ulen"], kind=kind_of(i)) for i in e["pre"]["ins"]],
               outs=[dict(sats=o["sats"], slen=o["slen"], data=is_data(o["head"])) for o in e["pre"]["outs"]])
    d = dict(kind=e["dest"]["kind"], slen=e["dest"]["slen"], data=is_data(e["dest"]["head"]), idx=e["dest"]["idx"])
    events = B.run_driver(ctx, "none", 0, [dict(k="case", pre=pre, q=e["q"], dest=d)])
    events = [x for x in events if x["ev"] in ("change", "panic")]
    rejects = B.validate(ctx, events, shards=1)
    handle(ctx, events, rejects)


def is_data(h):
    return (len(h) >= 1 and h[0] == 106) or (len(h) >= 2 and h[0] == 0 and h[1] == 106)


def kind_of(i):
    if not i["present"]:
        return "none"
    s = i["ps"]
    if len(s) == 25 and s[0] == 118 and s[1] == 169 and s[2] == 20 and s[23] == 136 and s[24] == 172:
        return "p2pkh"
    if len(s) > 32 and s[25:32] == [0, 99, 3, 111, 114, 100, 81]:
        return "inscr"
    return "other"
