"""C09 - decoding untrusted transaction bytes is total and resource-bounded."""
from checks import txwire
from lib import vf

LEVEL = "model_checking"

GROUP = {"bytes": "tx", "bytes-retained": "tx", "stream": "tx", "reader": "tx", "reader1": "tx", "readerp": "tx", "listp": "txs", "jsondoc-tx": "tx-json", "jsondoc-input": "input-json", "jsondoc-output": "output-json", "jsondoc-utxo": "utxo-json", "jsondoc-nodeutxo": "utxo-json", "json": "tx-json", "jsonnode": "tx-json",
         "jsonhex": "tx-json", "jsonnodehex": "tx-json", "list": "txs", "input": "input", "inputext": "input", "output": "output"}


def classify(e):
    api = GROUP.get(e["api"], e["api"])
    if e["outcome"] == "panic":
        msg = e.get("panic", "")
        cls = "makeslice" if "makeslice" in msg else ("index" if "index out of range" in msg or "slice bounds" in msg else "other")
        return "panic:%s:%s" % (cls, api), "decoding panics (%s) in the %s decoder: %s" % (cls, api, msg[:80])
    if e["outcome"] == "crash":
        return "crash:" + api, "decoding kills the process in the %s decoder: %s" % (api, e.get("panic", "")[-120:])
    if e["used"] > len(e["in"]):
        return "used-exceeds-input:" + api, "the %s decoder reports %d bytes consumed of %d supplied" % (api, e["used"], len(e["in"]))
    if e["alloc"] > 64 * len(e["in"]) + 262144:
        return "alloc-unbounded:" + api, "the %s decoder allocates %d bytes for a %d-byte input (length field trusted)" % (api, e["alloc"], len(e["in"]))
    return "other:" + api, "decoder outcome not in {value, error}"


def handle(ctx, events, rejects):
    for i, why in rejects:
        if why.get("cls") != "c09":
            continue
        e = events[i]
        key, what = classify(e)
        ctx.candidate(key, what, dict(event=e, summary=txwire.describe(e)))


def run(ctx):
    ctx.cov["rule"] = ("parse = a byte string given to every decoding entry point (single, stream, reader, one-byte reader, counted list, "
                       "input, extended input, output, JSON/node-JSON hex); inputs: byte strings fed by the TLC parser model, random bytes, "
                       "truncations at every field boundary +-1, bit flips, crafted prefixes whose length/count varints claim 2^16..2^64-1; "
                       "judged by Trace_TxWire.TotalOK: outcome in {ok, err}, used <= len(input), allocated <= 64*len+256KiB "
                       "(runtime.MemStats.TotalAlloc delta). distinct = (api, input)")
    ctx.assumptions += ["allocation is measured with runtime.MemStats.TotalAlloc around the call in a single-goroutine harness",
                        "a harness process death is attributed to the call in flight (intent file)"]
    cases = txwire.model_cases(ctx, want_tx=False)
    ctx.cov["tlc_generated_cases"] = len(cases)
    cases = txwire.sample_cases(ctx, cases, ctx.pick(2500, 150000))
    ctx.cov["tlc_generated_cases_replayed"] = len(cases)
    args = ctx.pick(["-n", "100", "-crafted", "60", "-corpus", "20"], ["-n", "10000", "-crafted", "10000", "-corpus", "4000"])
    events, rejects = txwire.collect(ctx, args, cases)
    handle(ctx, events, rejects)
    crafted = [e for e in events if e.get("src") == "crafted"]
    for e in events[:1] + crafted[:3]:
        ctx.sample(txwire.describe(e))


def replay(ctx, case):
    events, rejects = txwire.replay_case(ctx, case)
    handle(ctx, events, rejects)
