"""C19 - debugging is non-intrusive: same verdict, ordered callbacks, isolated snapshots."""
import random

from checks import c05
from checks import scriptasm as A
from checks import vmcommon as V
from lib import vf

LEVEL = "model_checking"


def classify(events, i, why):
    cls = why.get("cls")
    if cls == "debug-changes-verdict":
        return "debug-changes-verdict", "verdict/error with a debugger attached (%s) differs from the run without one (%s)" % (why["with"], why["without"])
    if cls == "snapshot-not-isolated":
        return "snapshot-not-isolated", "scribbling over the snapshots handed to callbacks changed the execution (verdict %s vs %s, same snapshots=%s, same calls=%s)" % (
            why["with"], why["scribbled"], why["snaps"], why["calls"])
    if cls == "fanout":
        return "fanout", "debug.NewDebugger fan-out changes the verdict or not every attached handler sees the documented callback stream (verdict %s vs %s, same calls=%s)" % (
            why["with"], why["fan"], why["calls"])
    if cls == "lifecycle":
        return "lifecycle:%s" % why["final"], "callback stream is not in the documented lifecycle order (automaton ends in %s after %d callbacks)" % (why["final"], why["n"])
    if cls == "oppos":
        return "snapshot-position:%s" % why["call"], "the snapshot handed to %s (callback %d) names a different instruction than the step it belongs to (BeforeStep position)" % (why["call"], why["at"])
    if cls == "stack":
        return "snapshot-inconsistent:%s" % c05.opname(why["op"]), "consecutive AfterStep snapshots are not related by the instruction executed between them (%s)" % c05.opname(why["op"])
    if cls == "extra-step":
        return "snapshot-extra-step", "more step snapshots than instructions"
    return None, None


def handle(ctx, events, rejects):
    for i, why in rejects:
        key, what = classify(events, i, why)
        if key is None:
            continue
        b, beg, end = V.trace_of(events, i)
        ctx.candidate(key, what, dict(case=V.mkcase(beg["id"], beg["unlock"], beg["lock"], beg["flags"], beg.get("src", "replay"),
                                                    ver=int.from_bytes(bytes(beg["ver"]), "little"), lt=int.from_bytes(bytes(beg["lt"]), "little"),
                                                    seq=int.from_bytes(bytes(beg["seq"]), "little")),
                                      summary=dict(V.describe(beg, end, why, i - b), calls_tail=end.get("calls", [])[-12:])))


def run(ctx):
    ctx.cov["rule"] = ("each program (node vectors, TLC families two2/flow4/unary, random, P2SH-shaped, mutated vectors) is executed three times: "
                       "no debugger, recording debugger, scribbling debugger (overwrites every byte of every stack slice and the cond stack in "
                       "each snapshot); Trace_VM requires equal verdict and error text, identical snapshots and callback streams, the callback "
                       "stream accepted by DebugLifecycle.tla consistently with the verdict, consecutive snapshots related by one ScriptVM step, and the snapshots of a step's BeforeExecuteOpcode / AfterExecuteOpcode "
                       "callbacks naming the same (script, opcode) position as its BeforeStep (DebugLifecycle!OpPositions)")
    ctx.assumptions += ["error equality is compared on the error text returned by Execute"]
    cases = c05.cases_from_vectors(ctx, ctx.pick(500, None))
    save = ctx.cov.get("tlc_generated_cases")
    c05.FAMILIES_QUICK, fq = ["two2", "flow4", "unary"], c05.FAMILIES_QUICK
    c05.FAMILIES_THOROUGH, ft = ["two3", "flow5", "unary", "shift"], c05.FAMILIES_THOROUGH
    try:
        cases += c05.cases_from_model(ctx, ctx.pick(1200, 25000))
    finally:
        c05.FAMILIES_QUICK, c05.FAMILIES_THOROUGH = fq, ft
    cases += V.random_cases(ctx, ctx.pick(2000, 40000), tag="rnd19")
    cases += V.mutated_vectors(ctx, ctx.pick(500, 10000))
    events = V.run_cases(ctx, cases, three=True)
    rejects, st = V.validate(ctx, events)
    ctx.cov.update(st)
    handle(ctx, events, rejects)
    ntr = sum(1 for e in events if e["ev"] == "begin")
    ctx.cov["traces_validated_against_impl"] += ntr
    ctx.cov["executions"] = 3 * ntr
    ctx.count_cases(ntr, {(bytes(e["unlock"]).hex(), bytes(e["lock"]).hex(), e["flags"]) for e in events if e["ev"] == "begin"})
    ends = [e for e in events if e["ev"] == "end"]
    ctx.cov["callbacks_checked"] = sum(len(e.get("calls", [])) for e in ends)
    begs = [e for e in events if e["ev"] == "begin"]
    for k in (0, len(begs) // 2):
        ctx.sample(dict(V.describe(begs[k]), calls=ends[k].get("calls", [])[:14]))


def replay(ctx, case):
    events = V.run_cases(ctx, [case["case"]["case"]], three=True)
    rejects, st = V.validate(ctx, events, shards=1)
    handle(ctx, events, rejects)
