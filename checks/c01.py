"""C01 - transaction wire codec is lossless and canonical (standard, extended, stream)."""
from checks import txwire
from lib import vf

LEVEL = "model_checking"


def classify(e, why):
    if e["ev"] == "ser":
        return "ser-mismatch", "Bytes/ExtendedBytes/TxID/Clone of a built transaction differ from the specified serialisation"
    api = e["api"]
    if e["ok"] != why.get("specok"):
        return ("parse-accepts-invalid:" if e["ok"] else "parse-rejects-valid:") + api, \
            "%s %s a byte string the wire format %s" % (api, "accepts" if e["ok"] else "rejects", "rejects" if e["ok"] else "accepts")
    return "parse-result:" + api, "%s decodes to a different transaction / consumed count / re-serialisation than specified" % api


def handle(ctx, events, rejects):
    for i, why in rejects:
        if why.get("cls") != "c01":
            continue
        e = events[i]
        key, what = classify(e, why)
        ctx.candidate(key, what, dict(event=e, summary=txwire.describe(e)))


def run(ctx):
    ctx.cov["rule"] = ("ser = a transaction built through the public types and serialised (Bytes, ExtendedBytes, TxID, Clone); "
                       "parse = a byte string given to NewTxFromBytes / NewTxFromStream / Tx.ReadFrom (bytes.Reader and one-byte reader) / "
                       "Txs.ReadFrom / Input.ReadFrom(Extended) / Output.ReadFrom / JSON hex. Inputs: every serialised model transaction and "
                       "every fed byte string of the TLC models, random transactions with lengths/counts on varint boundaries, non-minimal "
                       "rewrites, streams, counted lists, truncations, bit flips, node test-vector transactions. distinct = (event, api, input); "
                       "non-trivial = the real call ran and was judged by Trace_TxWire")
    ctx.assumptions += ["txid hash values recomputed by python hashlib; SHA-256d uninterpreted in the spec",
                        "the marker rule (zero input count, zero output count, 00 00 00 EF) defines the extended format as in TxWire.tla"]
    # the varint codec, for every value below 2^31 (symbolic; TLC only samples values)
    if ctx.tier == "thorough":
        ctx.apalache("VarIntInd.tla", "RoundTrip")
    cases = txwire.model_cases(ctx, want_tx=True)
    ctx.cov["tlc_generated_cases"] = len(cases)
    cases = txwire.sample_cases(ctx, cases, ctx.pick(2500, 150000))
    ctx.cov["tlc_generated_cases_replayed"] = len(cases)
    args = ctx.pick(["-n", "120", "-crafted", "0", "-corpus", "60"], ["-n", "10000", "-crafted", "0", "-corpus", "10000", "-block"])
    events, rejects = txwire.collect(ctx, args, cases)
    handle(ctx, events, rejects)
    for e in events[:2] + events[len(events) // 2:len(events) // 2 + 2]:
        ctx.sample(txwire.describe(e))


def replay(ctx, case):
    events, rejects = txwire.replay_case(ctx, case)
    handle(ctx, events, rejects)
