"""The node's test-vector "short form" script syntax -> bytes, flag names -> go-bt flag bits.
Independent of go-bt (own opcode table)."""
OPS = {'0': 0, 'FALSE': 0, 'PUSHDATA1': 76, 'PUSHDATA2': 77, 'PUSHDATA4': 78, '1NEGATE': 79, 'RESERVED': 80, 'TRUE': 81,
       'NOP': 97, 'VER': 98, 'IF': 99, 'NOTIF': 100, 'VERIF': 101, 'VERNOTIF': 102, 'ELSE': 103, 'ENDIF': 104, 'VERIFY': 105,
       'RETURN': 106, 'TOALTSTACK': 107, 'FROMALTSTACK': 108, '2DROP': 109, '2DUP': 110, '3DUP': 111, '2OVER': 112, '2ROT': 113,
       '2SWAP': 114, 'IFDUP': 115, 'DEPTH': 116, 'DROP': 117, 'DUP': 118, 'NIP': 119, 'OVER': 120, 'PICK': 121, 'ROLL': 122,
       'ROT': 123, 'SWAP': 124, 'TUCK': 125, 'CAT': 126, 'SPLIT': 127, 'NUM2BIN': 128, 'BIN2NUM': 129, 'SIZE': 130, 'INVERT': 131,
       'AND': 132, 'OR': 133, 'XOR': 134, 'EQUAL': 135, 'EQUALVERIFY': 136, 'RESERVED1': 137, 'RESERVED2': 138, '1ADD': 139,
       '1SUB': 140, '2MUL': 141, '2DIV': 142, 'NEGATE': 143, 'ABS': 144, 'NOT': 145, '0NOTEQUAL': 146, 'ADD': 147, 'SUB': 148,
       'MUL': 149, 'DIV': 150, 'MOD': 151, 'LSHIFT': 152, 'RSHIFT': 153, 'BOOLAND': 154, 'BOOLOR': 155, 'NUMEQUAL': 156,
       'NUMEQUALVERIFY': 157, 'NUMNOTEQUAL': 158, 'LESSTHAN': 159, 'GREATERTHAN': 160, 'LESSTHANOREQUAL': 161,
       'GREATERTHANOREQUAL': 162, 'MIN': 163, 'MAX': 164, 'WITHIN': 165, 'RIPEMD160': 166, 'SHA1': 167, 'SHA256': 168,
       'HASH160': 169, 'HASH256': 170, 'CODESEPARATOR': 171, 'CHECKSIG': 172, 'CHECKSIGVERIFY': 173, 'CHECKMULTISIG': 174,
       'CHECKMULTISIGVERIFY': 175, 'NOP1': 176, 'NOP2': 177, 'CHECKLOCKTIMEVERIFY': 177, 'NOP3': 178, 'CHECKSEQUENCEVERIFY': 178,
       'NOP4': 179, 'NOP5': 180, 'NOP6': 181, 'NOP7': 182, 'NOP8': 183, 'NOP9': 184, 'NOP10': 185, 'INVALIDOPCODE': 255,
       'SMALLINTEGER': 250, 'PUBKEYS': 251, 'PUBKEYHASH': 253, 'PUBKEY': 254}
for _i in range(1, 17):
    OPS['OP_%d' % _i] = 80 + _i
for _k, _v in list(OPS.items()):
    if not _k.startswith('OP_'):
        OPS['OP_' + _k] = _v
OPNAME = {}
for _k, _v in OPS.items():
    if _k.startswith('OP_') and _v not in OPNAME:
        OPNAME[_v] = _k

FLAGBITS = {"P2SH": 1 << 0, "NULLDUMMY": 1 << 1, "DISCOURAGE_UPGRADABLE_NOPS": 1 << 2, "CHECKLOCKTIMEVERIFY": 1 << 3,
            "CHECKSEQUENCEVERIFY": 1 << 4, "CLEANSTACK": 1 << 5, "DERSIG": 1 << 6, "LOW_S": 1 << 7, "MINIMALDATA": 1 << 8,
            "NULLFAIL": 1 << 9, "SIGPUSHONLY": 1 << 10, "SIGHASH_FORKID": 1 << 11, "STRICTENC": 1 << 12, "BIP143": 1 << 13,
            "UTXO_AFTER_GENESIS": 1 << 14, "MINIMALIF": 1 << 15}


def scriptnum(n):
    if n == 0:
        return b""
    neg, a = n < 0, abs(n)
    out = bytearray()
    while a:
        out.append(a & 0xff)
        a >>= 8
    if out[-1] & 0x80:
        out.append(0x80 if neg else 0)
    elif neg:
        out[-1] |= 0x80
    return bytes(out)


def push(data):
    n = len(data)
    if n <= 75:
        return bytes([n]) + data
    if n <= 255:
        return bytes([76, n]) + data
    if n <= 65535:
        return bytes([77]) + n.to_bytes(2, "little") + data
    return bytes([78]) + n.to_bytes(4, "little") + data


def parse(s):
    out = b""
    for tok in s.replace("\n", " ").replace("\t", " ").split(" "):
        if not tok:
            continue
        try:
            n = int(tok, 10)
            if n == 0:
                out += b"\x00"
            elif n == -1 or 1 <= n <= 16:
                out += bytes([80 + n])
            else:
                out += push(scriptnum(n))
            continue
        except ValueError:
            pass
        if tok.startswith("0x"):
            out += bytes.fromhex(tok[2:])
        elif len(tok) >= 2 and tok[0] == "'" and tok[-1] == "'":
            out += push(tok[1:-1].encode())
        elif tok in OPS:
            out += bytes([OPS[tok]])
        else:
            raise ValueError("bad token %r" % tok)
    return out


def flags(s):
    v = 0
    for f in s.split(","):
        if f in ("", "NONE"):
            continue
        v |= FLAGBITS[f]
    return v


def flagrec(v):
    g = lambda n: bool(v & FLAGBITS[n])
    return dict(p2sh=g("P2SH"), nulldummy=g("NULLDUMMY"), discourage=g("DISCOURAGE_UPGRADABLE_NOPS"), cltv=g("CHECKLOCKTIMEVERIFY"),
                csv=g("CHECKSEQUENCEVERIFY"), cleanstack=g("CLEANSTACK"), dersig=g("DERSIG"), lows=g("LOW_S"),
                minimaldata=g("MINIMALDATA"), nullfail=g("NULLFAIL"), sigpushonly=g("SIGPUSHONLY"), forkid=g("SIGHASH_FORKID"),
                strictenc=g("STRICTENC") or g("SIGHASH_FORKID"), minimalif=g("MINIMALIF"), bip143=g("BIP143")), g("UTXO_AFTER_GENESIS")


def disasm(b):
    """best-effort rendering for evidence samples"""
    out, i = [], 0
    b = bytes(b)
    while i < len(b):
        op = b[i]
        if 1 <= op <= 75:
            out.append("0x" + b[i + 1:i + 1 + op].hex())
            i += 1 + op
        elif op in (76, 77, 78):
            w = {76: 1, 77: 2, 78: 4}[op]
            n = int.from_bytes(b[i + 1:i + 1 + w], "little")
            out.append("PUSHDATA%d(%d)0x%s" % (w, n, b[i + 1 + w:i + 1 + w + n].hex()[:40]))
            i += 1 + w + n
        else:
            out.append(OPNAME.get(op, "0x%02x" % op).replace("OP_", ""))
            i += 1
    return " ".join(out)
