"""Shared machinery for C10 (change), C11 (size/fee accounting), C12 (funding)."""
import os
import random

from lib import vf


def run_driver(ctx, what, n, cases=None, extra=()):
    out = os.path.join(ctx.tmp, "builder-%s.ndjson" % what.replace(",", "_"))
    args = ["builder", "-out", out, "-what", what, "-n", n]
    if cases is not None:
        cpath = os.path.join(ctx.tmp, "builder-cases-%s.ndjson" % what.replace(",", "_"))
        vf.write_ndjson(cpath, cases)
        args += ["-cases", cpath]
    ctx.run_vh(args + list(extra))
    ev = vf.read_ndjson(out)
    os.unlink(out)
    return ev


def validate(ctx, events, shards=12):
    return vf.validate_events(ctx, "Trace_Builder.tla", "Trace_Builder.cfg", events, shards=shards)


def sample(ctx, cases, n):
    if len(cases) <= n:
        return cases
    return random.Random(ctx.seed).sample(cases, n)


def short(p):
    return dict(ins=[dict(sats=i["sats"], ulen=i["ulen"], ps=bytes(i["ps"]).hex()[:60], present=i["present"]) for i in p["ins"]][:4],
                nin=len(p["ins"]), nout=len(p["outs"]),
                outs=[dict(sats=o["sats"], slen=o["slen"], head=bytes(o["head"]).hex()) for o in p["outs"]][:5])


def sums(p):
    return sum(i["sats"] for i in p["ins"]), sum(o["sats"] for o in p["outs"])
