"""C11 - size and fee accounting is exact and the size estimate is an upper bound."""
from checks import builder as B
from lib import vf

LEVEL = "model_checking"


def classify(e):
    if e["ev"] == "panic":
        return "panic", "size/fee query panics: " + e.get("panic", "")[:100]
    if e["ev"] == "signed":
        return "estimate-below-signed-size", "estimated size %d < signed size %d (unlocking lengths %s)" % (e["est"], e["real"], e["ulens"])
    t = e["tx"]
    tin, tout = B.sums(t)
    if e["size"]["total"] != e["real"] or e["size"]["total"] != e["size"]["std"] + e["size"]["data"]:
        return "size-partition", "SizeWithTypes %s is not a partition of the %d serialised bytes" % (e["size"], e["real"])
    kinds = sorted({"nil" if not i["present"] else "set" for i in t["ins"]})
    return "accounting", "size / fee / sufficiency values differ from the specification (inputs %d outputs %d, est ok=%s)" % (tin, tout, e["est"]["ok"])


def handle(ctx, events, rejects):
    for i, why in rejects:
        e = events[i]
        if e["ev"] not in ("fees", "signed", "panic"):
            continue
        if e["ev"] == "panic" and "tx" not in e:
            continue
        key, what = classify(e)
        s = dict(ev=e["ev"])
        if "tx" in e:
            s.update(tx=B.short(e["tx"]), q=e["q"], size=e.get("size"), est=e.get("est"), paid=e.get("paid"), estpaid=e.get("estpaid"), estfees=e.get("estfees"))
        ctx.candidate(key, what, dict(event=e, summary=s))


def run(ctx):
    ctx.cov["rule"] = ("fees = SizeWithTypes / Size / EstimateSize(WithTypes) / IsFeePaidEnough / EstimateIsFeePaidEnough / EstimateFeesPaid on every "
                       "MC_FeeMath scenario before and after the change step and on random transactions mixing P2PKH, inscription, unsupported and "
                       "missing spent scripts, OP_RETURN and OP_FALSE OP_RETURN outputs (0..70000 bytes), boundary output counts, partial and full "
                       "signing with fresh keys; signed = estimate before vs size after FillAllInputs; judged by FeeMath.tla (partition of bytes, "
                       "floor arithmetic, sufficiency predicate, estimate errors, est >= signed); distinct = (tx projection, quote)")
    ctx.assumptions += ["library signatures are <= 72 bytes + 33-byte compressed key (unlocking script <= 107), checked on every signed event"]
    r = ctx.tlc("MC_FeeMath.tla", "MC_FeeMath.cfg")
    cases = [o for o in r["emitted"] if o.get("k") == "case"]
    ctx.cov["tlc_generated_cases"] = len(cases)
    cases = B.sample(ctx, cases, ctx.pick(1000, 10**9))
    ctx.cov["tlc_generated_cases_replayed"] = len(cases)
    events = B.run_driver(ctx, "fees", ctx.pick(1200, 250000), cases)
    rejects = B.validate(ctx, events)
    handle(ctx, events, rejects)
    fe = [e for e in events if e["ev"] in ("fees", "signed")]
    ctx.cov["traces_validated_against_impl"] += len(events)
    ctx.count_cases(len(fe), {vf.json.dumps([e.get("tx"), e.get("q"), e.get("ulens")], sort_keys=True) for e in fe})
    ctx.cov["signed_events"] = sum(1 for e in fe if e["ev"] == "signed")
    ctx.cov["estimate_errors_seen"] = sum(1 for e in fe if e["ev"] == "fees" and not e["est"]["ok"])
    for e in [x for x in fe if x["ev"] == "fees"][:2] + [x for x in fe if x["ev"] == "signed"][:1]:
        ctx.sample({k: (B.short(v) if k == "tx" else v) for k, v in e.items() if k in ("ev", "tx", "q", "size", "est", "paid", "estfees", "real", "ulens")})


def replay(ctx, case):
    e = case["case"]["event"]
    if e["ev"] != "fees":
        print("replay of signed events re-runs the random driver family instead")
        events = B.run_driver(ctx, "fees", 300)
    else:
        from checks.c10 import kind_of, is_data
        pre = dict(ins=[dict(sats=i["sats"], ulen=i["ulen"], kind=kind_of(i)) for i in e["tx"]["ins"]],
                   outs=[dict(sats=o["sats"], slen=o["slen"], data=is_data(o["head"])) for o in e["tx"]["outs"]])
        events = B.run_driver(ctx, "none", 0, [dict(k="case", pre=pre, q=e["q"], dest=dict(kind="new", slen=25, data=False, idx=0))])
        events = [x for x in events if x.get("src") == "tlc"]
    rejects = B.validate(ctx, events, shards=1)
    handle(ctx, events, rejects)
