"""C13 - script codecs round-trip: push-data, opcode parse/unparse, hex, JSON, ASM."""
import os

from checks import scriptasm as A
from lib import vf

LEVEL = "model_checking"


def classify(e, why):
    if e["ev"] == "panic":
        return "panic", "script codec panics: " + e.get("panic", "")[:100]
    if e["ev"] == "encparts":
        return "encodeparts", "EncodeParts/DecodeParts of items with lengths %s does not round-trip with shortest push forms" % [len(x) for x in e["items"]]
    s = e["s"]
    wf = why.get("wf")
    if e["dp"]["ok"] != wf:
        return "decodeparts-" + ("accepts-truncated" if e["dp"]["ok"] else "rejects-wellformed"), "DecodeParts %s a %s script" % ("accepts" if e["dp"]["ok"] else "rejects", "truncated" if not wf else "well-formed")
    if wf and not e["parse"]["ok"]:
        return "parse-rejects-wellformed", "DefaultOpcodeParser.Parse rejects a well-formed script"
    if not wf and not why.get("ret") and e["parse"]["ok"]:
        return "parse-accepts-truncated", "DefaultOpcodeParser.Parse accepts a truncated push"
    if e["parse"]["ok"] and e["parse"]["unparse"] != s:
        return "unparse", "Unparse(Parse(s)) differs from s"
    if e["hexrt"] != s or e["jsonrt"] != s:
        return "hex-json", "hex / JSON rendering does not convert back"
    if why.get("asmsafe") and not (e["asm"]["ok"] and e["asm"]["rt"] == s):
        ops = sorted({b for b in s if b == 0 or b >= 79})
        first_bad = next((A.OPNAME.get(o, "0x%02x" % o) for o in ops), "?")
        return "asm-roundtrip", "ToASM/NewFromASM does not convert back an ASM-safe script (text %r)" % e["asm"].get("text", "")[:80]
    return "tokenisers-disagree", "DecodeParts and DefaultOpcodeParser disagree with the tokeniser on push boundaries"


def judge(ctx, events):
    rejects = vf.validate_events(ctx, "Trace_Script.tla", "Trace_Script.cfg", events, shards=12)
    for i, why in rejects:
        e = events[i]
        key, what = classify(e, why)
        ctx.candidate(key, what, dict(event={k: v for k, v in e.items() if k in ("ev", "s", "items", "src", "panic")},
                                      summary=dict(script=bytes(e.get("s", [])).hex()[:200], asm=e.get("asm", {}).get("text", "")[:120], why=why)))
    return rejects


def run(ctx):
    ctx.cov["rule"] = ("script = one byte string through DecodeParts, DefaultOpcodeParser.Parse/Unparse, hex, JSON and ToASM/NewFromASM; encparts = "
                       "EncodeParts on non-empty items + DecodeParts. Inputs: every byte string up to length 4/5 over a push-header/opcode alphabet and "
                       "every item list on the 75/76/255/256 boundaries (TLC, exhaustive), random item lists incl. 65535/65536, their encodings truncated, "
                       "random opcode/push mixes (non-minimal pushes, OP_RETURN tails), script codes of the node vectors; judged by ScriptTok.tla; "
                       "distinct = script bytes / item list")
    if ctx.tier == "thorough":
        ctx.apalache("PushHdrInd.tla", "RoundTrip")     # the push header, for every length below 2^31 (symbolic)
    r = ctx.tlc("MC_ScriptTok.tla", ctx.pick("MC_ScriptTok.cfg", "MC_ScriptTok_t.cfg"))
    cases = [o for o in r["emitted"] if o.get("k") == "case"]
    ctx.cov["tlc_generated_cases"] = len(cases)
    import random
    if len(cases) > ctx.pick(6000, 10**9):
        cases = random.Random(ctx.seed).sample(cases, ctx.pick(6000, 10**9))
    ctx.cov["tlc_generated_cases_replayed"] = len(cases)
    cpath = os.path.join(ctx.tmp, "c13cases.ndjson")
    vf.write_ndjson(cpath, cases)
    out = os.path.join(ctx.tmp, "c13.ndjson")
    ctx.run_vh(["script", "-cases", cpath, "-out", out, "-n", ctx.pick(400, 40000)])
    events = vf.read_ndjson(out)
    os.unlink(out)
    judge(ctx, events)
    ctx.cov["traces_validated_against_impl"] += len(events)
    ctx.count_cases(len(events), {vf.json.dumps(e.get("s", e.get("items"))) for e in events})
    for e in events[:1] + events[len(events) // 2:len(events) // 2 + 2]:
        ctx.sample(dict(ev=e["ev"], script=bytes(e.get("s", [])).hex()[:120], items=[len(x) for x in e.get("items", [])], asm=e.get("asm", {}).get("text", "")[:80]))


def replay(ctx, case):
    e = case["case"]["event"]
    cpath = os.path.join(ctx.tmp, "one.ndjson")
    vf.write_ndjson(cpath, [dict(mode="items", items=e["items"]) if e["ev"] == "encparts" or "items" in e else dict(mode="bytes", s=e["s"])])
    out = os.path.join(ctx.tmp, "one-out.ndjson")
    ctx.run_vh(["script", "-cases", cpath, "-out", out, "-only"])
    judge(ctx, vf.read_ndjson(out))
