"""C15 - P2PKH construction and addresses are coherent and checksum-protected."""
import os

from lib import vf

LEVEL = "model_checking"
APIS = ["validate", "fromString", "fromAddr", "payTo", "changeTo"]


def flags(e):
    return [e["validate"], e["fromString"]["ok"], e["fromAddr"]["ok"], e["payTo"], e["changeTo"]]


def classify(e, why):
    if e["ev"] == "panic":
        return "panic", "address function panics: " + e.get("panic", "")[:100]
    if e["ev"] == "derive":
        return "derive", "address / script derived from a key hash is not coherent (decode back, constructors agree, canonical 25-byte script)"
    v = flags(e)
    acc = [a for a, x in zip(APIS, v) if x]
    rej = [a for a, x in zip(APIS, v) if not x]
    if why.get("hash") == "neg":      # accepted by all, checksum wrong
        return "accepts-bad-checksum:all", "every entry point accepts an address whose checksum is wrong"
    if why.get("hash") == "pos":
        return "rejects-valid", "a valid address is rejected by every entry point"
    if not why["structural"]:
        reason = "bad-chars" if not why["chars"] else ("length-%s" % ("short" if why["declen"] < 25 else "long" if why["declen"] > 25 else "version"))
        return "accepts-malformed:%s:%s" % (reason, "+".join(acc)), "%s accept(s) a string that is not a 25-byte Base58Check address with a supported version (%s)" % (acc, reason)
    return "entry-points-disagree:accept=%s" % "+".join(acc), "entry points disagree on a well-formed address string: %s accept, %s reject (a checksum is not verified on some path)" % (acc, rej)


def judge(ctx, events, shards=12):
    from concurrent.futures import ThreadPoolExecutor
    n = len(events)
    shards = max(1, min(shards, n // 40 + 1))
    cuts = [(n * k) // shards for k in range(shards + 1)]
    ctx.specdir()

    def one(j):
        a, b = cuts[j], cuts[j + 1]
        path = os.path.join(ctx.tmp, "addr-shard-%d.ndjson" % j)
        vf.write_ndjson(path, events[a:b])
        res = ctx.validate_trace("Trace_Address.tla", "Trace_Address.cfg", path, b - a)
        os.unlink(path)
        rej = {a + r["i"] - 1: r["why"] for r in res["rejects"]}
        nob = 0
        for o in res["emitted"]:
            if o.get("k") != "hash":
                continue
            nob += 1
            holds = not vf.check_hash_oracle([o])
            i = a + o["ref"] - 1
            if holds == o["neg"] and i not in rej:
                rej[i] = dict(ev=events[i]["ev"], structural=True, hash="neg" if o["neg"] else "pos", kind=o["kind"])
        return rej, nob
    with ThreadPoolExecutor(max_workers=shards) as ex:
        parts = list(ex.map(one, range(shards)))
    rejects = {}
    nob = 0
    for r, k in parts:
        rejects.update(r)
        nob += k
    ctx.cov["hash_obligations_checked"] = ctx.cov.get("hash_obligations_checked", 0) + nob
    for i, why in sorted(rejects.items()):
        e = events[i]
        key, what = classify(e, why)
        ctx.candidate(key, what, dict(event=dict(ev=e["ev"], s=e.get("s", e.get("addr"))), summary=dict(text=bytes(e.get("s", e.get("addr", []))).decode("latin1"),
                                                                                                       src=e.get("src"), accepts=dict(zip(APIS, flags(e))) if e["ev"] == "accept" else None, why=why)))


def run(ctx):
    ctx.cov["rule"] = ("derive = address and P2PKH scripts from random keys / hashes (edge hashes: all-zero, all-ff, leading zeros), both networks, "
                       "through every constructor, read back; accept = one string through ValidateAddress, NewAddressFromString, NewP2PKHFromAddress, "
                       "PayToAddress, ChangeToAddress: valid addresses, every single-character substitution (sampled), transposition, deletion, insertion "
                       "(incl. extra/missing leading '1'), non-Base58 characters, wrong version bytes and lengths with a correct checksum; judged by "
                       "Address.tla (Base58 decoded by the spec; checksum / HASH160 as oracle obligations, positive and negative); distinct = string")
    ctx.assumptions += ["SHA-256d / HASH160 are uninterpreted; obligations recomputed with python hashlib"]
    ctx.tlc("MC_Address.tla", "MC_Address.cfg")
    out = os.path.join(ctx.tmp, "c15.ndjson")
    ctx.run_vh(["addr", "-out", out, "-n", ctx.pick(120, 10000), "-typos", ctx.pick(6, 300)])
    events = vf.read_ndjson(out)
    os.unlink(out)
    judge(ctx, events)
    ctx.cov["traces_validated_against_impl"] += len(events)
    ctx.count_cases(len(events), {bytes(e.get("s", e.get("addr", []))).hex() + e["ev"] for e in events})
    for e in events[:1] + [x for x in events if x["ev"] == "accept"][:2]:
        ctx.sample(dict(ev=e["ev"], text=bytes(e.get("s", e.get("addr", []))).decode("latin1"), src=e.get("src"),
                        accepts=dict(zip(APIS, flags(e))) if e["ev"] == "accept" else None))


def replay(ctx, case):
    e = case["case"]["event"]
    cpath = os.path.join(ctx.tmp, "one.ndjson")
    vf.write_ndjson(cpath, [dict(s=e["s"])])
    out = os.path.join(ctx.tmp, "one-out.ndjson")
    ctx.run_vh(["addr", "-cases", cpath, "-out", out])
    judge(ctx, vf.read_ndjson(out), shards=1)
