package main

// feestore: sequential and concurrent call histories on real FeeQuotes / FeeQuote objects,
// recorded for Trace_FeeLin.tla (linearizability with respect to FeeStore.tla).

import (
	"encoding/json"
	"errors"
	"flag"
	"fmt"
	"math/rand"
	"runtime"
	"sync"
	"sync/atomic"
	"time"

	"github.com/libsv/go-bt/v2"
)

func init() { register("feestore", feestoreCmd) }

var (
	tPast        = time.Date(2000, 1, 1, 0, 0, 0, 0, time.UTC)
	tFuture      = time.Date(2100, 1, 1, 0, 0, 0, 0, time.UTC)
	feeTypeNames = []string{"standard", "data", "other", ""}
)

// a Fee whose four numbers all derive from one id, so that a torn value is recognisable
func feeOfID(id int) *bt.Fee {
	return &bt.Fee{MiningFee: bt.FeeUnit{Satoshis: id, Bytes: id + 1}, RelayFee: bt.FeeUnit{Satoshis: id + 2, Bytes: id + 3}}
}

func idOfFee(f *bt.Fee) int {
	if f.MiningFee.Satoshis == 5 && f.MiningFee.Bytes == 100 && f.RelayFee.Satoshis == 5 && f.RelayFee.Bytes == 100 {
		return 5 // a default fee
	}
	id := f.MiningFee.Satoshis
	if f.MiningFee.Bytes != id+1 || f.RelayFee.Satoshis != id+2 || f.RelayFee.Bytes != id+3 {
		return -777 // torn: fields of different writes
	}
	return id
}

type feeEnv struct {
	fqs  *bt.FeeQuotes
	objs []*bt.FeeQuote
}

func newFeeEnv(nobjs int) *feeEnv {
	e := &feeEnv{fqs: bt.NewFeeQuotes("m1")}
	for i := 0; i < nobjs; i++ {
		e.objs = append(e.objs, bt.NewFeeQuote())
	}
	return e
}

func errClass(err error) Ev {
	switch {
	case errors.Is(err, bt.ErrMinerNoQuotes):
		return Ev{"err": "miner"}
	case errors.Is(err, bt.ErrFeeTypeNotFound):
		return Ev{"err": "type"}
	case errors.Is(err, bt.ErrEmptyValues):
		return Ev{"err": "empty"}
	case errors.Is(err, bt.ErrUnknownFeeType):
		return Ev{"err": "unknowntype"}
	}
	return Ev{"err": "other:" + err.Error()}
}

func feesArg(op map[string]interface{}) map[string]int {
	out := map[string]int{}
	for k, v := range op["fees"].(map[string]interface{}) {
		out[k] = num(v)
	}
	return out
}

// call performs one operation and returns the reply record.
func (e *feeEnv) call(op map[string]interface{}) Ev {
	s := func(k string) string { v, _ := op[k].(string); return v }
	obj := func() *bt.FeeQuote { return e.objs[num(op["obj"])-1] }
	switch s("k") {
	case "addDefault":
		e.fqs.AddMinerWithDefault(s("m"))
		return Ev{"ok": true}
	case "addMiner":
		e.fqs.AddMiner(s("m"), obj())
		return Ev{"ok": true}
	case "quote":
		if _, err := e.fqs.Quote(s("m")); err != nil {
			return errClass(err)
		}
		return Ev{"ok": true}
	case "fee":
		f, err := e.fqs.Fee(s("m"), bt.FeeType(s("t")))
		if err != nil {
			return errClass(err)
		}
		return Ev{"val": idOfFee(f)}
	case "update":
		var f *bt.Fee
		if v := num(op["v"]); v != -1 {
			f = feeOfID(v)
		}
		if _, err := e.fqs.UpdateMinerFees(s("m"), bt.FeeType(s("t")), f); err != nil {
			return errClass(err)
		}
		return Ev{"ok": true}
	case "qAdd":
		obj().AddQuote(bt.FeeType(s("t")), feeOfID(num(op["v"])))
		return Ev{"ok": true}
	case "qFee":
		f, err := obj().Fee(bt.FeeType(s("t")))
		if err != nil {
			return errClass(err)
		}
		return Ev{"val": idOfFee(f)}
	case "qSetExp":
		obj().UpdateExpiry(map[int]time.Time{1: tPast, 2: tFuture}[num(op["x"])])
		return Ev{"ok": true}
	case "qExp":
		t := obj().Expiry()
		switch {
		case t.Equal(tPast):
			return Ev{"x": 1}
		case t.Equal(tFuture):
			return Ev{"x": 2}
		}
		return Ev{"x": 0}
	case "qExpired":
		return Ev{"b": fmt.Sprint(obj().Expired())}
	case "qMarshal":
		b, err := json.Marshal(obj())
		if err != nil {
			return Ev{"err": "other:" + err.Error()}
		}
		var m map[string]*bt.Fee
		if err := json.Unmarshal(b, &m); err != nil {
			return Ev{"err": "other:" + err.Error()}
		}
		snap := map[string]int{}
		for _, t := range feeTypeNames {
			snap[t] = -1
		}
		for k, f := range m {
			snap[k] = idOfFee(f)
		}
		return Ev{"snap": snap}
	case "qUnmarshal":
		doc := map[string]*bt.Fee{}
		for k, v := range feesArg(op) {
			if v != -1 {
				doc[k] = feeOfID(v)
			}
		}
		b, _ := json.Marshal(doc)
		if err := json.Unmarshal(b, obj()); err != nil {
			return errClass(err)
		}
		return Ev{"ok": true}
	}
	return Ev{"err": "other:unknown op"}
}

func randFeeOp(rng *rand.Rand, nobjs int, nextID func() int) Ev {
	m := []string{"m1", "m1", "m2", "m2", ""}[rng.Intn(5)]
	t := []string{"standard", "standard", "data", "other", ""}[rng.Intn(5)]
	k := 1 + rng.Intn(nobjs)
	switch rng.Intn(16) {
	case 0:
		return Ev{"k": "addDefault", "m": m}
	case 1:
		return Ev{"k": "addMiner", "m": m, "obj": k}
	case 2:
		return Ev{"k": "quote", "m": m}
	case 3, 4, 5:
		return Ev{"k": "fee", "m": m, "t": t}
	case 6, 7:
		v := nextID()
		if rng.Intn(12) == 0 {
			v = -1
		}
		return Ev{"k": "update", "m": m, "t": t, "v": v}
	case 8, 9:
		return Ev{"k": "qAdd", "obj": k, "t": t, "v": nextID()}
	case 10, 11:
		return Ev{"k": "qFee", "obj": k, "t": t}
	case 12:
		return Ev{"k": "qSetExp", "obj": k, "x": 1 + rng.Intn(2)}
	case 13:
		if rng.Intn(2) == 0 {
			return Ev{"k": "qExp", "obj": k}
		}
		return Ev{"k": "qExpired", "obj": k}
	case 14:
		return Ev{"k": "qMarshal", "obj": k}
	default:
		fees := map[string]int{"standard": nextID(), "data": nextID(), "other": -1, "": -1}
		switch rng.Intn(5) {
		case 0:
			fees["data"] = -1
		case 1:
			fees["other"] = nextID()
		}
		return Ev{"k": "qUnmarshal", "obj": k, "fees": fees}
	}
}

func feestoreCmd(args []string) error {
	fs := flag.NewFlagSet("feestore", flag.ExitOnError)
	out := fs.String("out", "feestore.ndjson", "trace file")
	casesPath := fs.String("cases", "", "sequential call sequences emitted by MC_FeeStore")
	n := fs.Int("n", 100, "concurrent histories")
	g := fs.Int("g", 3, "goroutines per history")
	l := fs.Int("len", 5, "calls per goroutine")
	nseq := fs.Int("nseq", 100, "random sequential histories")
	fs.Parse(args)
	tr, err := newTrace(*out)
	if err != nil {
		return err
	}
	const nobjs = 2
	if *casesPath != "" {
		cs, err := readNDJSON(*casesPath)
		if err != nil {
			return err
		}
		for _, c := range cs {
			env := newFeeEnv(nobjs)
			var calls []Ev
			clock := 0
			for _, x := range c["calls"].([]interface{}) {
				op := x.(map[string]interface{})["op"].(map[string]interface{})
				clock++
				inv := clock
				ret := env.call(op)
				clock++
				calls = append(calls, Ev{"op": op, "ret": ret, "inv": inv, "res": clock})
			}
			tr.emit(Ev{"ev": "hist", "src": "tlc", "first": "m1", "threads": [][]Ev{calls}})
		}
	}
	rng := newRand(777)
	id := int64(1000)
	nextID := func() int { return int(atomic.AddInt64(&id, 10)) }
	for i := 0; i < *nseq+*n; i++ {
		threads := *g
		if i < *nseq {
			threads = 1
		}
		// programs are fixed before the goroutines start
		progs := make([][]map[string]interface{}, threads)
		for t := range progs {
			k := *l
			if threads == 1 {
				k = 3 + rng.Intn(10)
			}
			for j := 0; j < k; j++ {
				progs[t] = append(progs[t], roundTripJSON(randFeeOp(rng, nobjs, nextID)))
			}
		}
		env := newFeeEnv(nobjs)
		var clock int64
		res := make([][]Ev, threads)
		var wg sync.WaitGroup
		var ready int64
		yields := make([][]bool, threads)
		for t := range yields {
			for range progs[t] {
				yields[t] = append(yields[t], rng.Intn(4) == 0)
			}
		}
		for t := 0; t < threads; t++ {
			wg.Add(1)
			go func(t int) {
				defer wg.Done()
				// spin barrier: all goroutines leave it within nanoseconds of each other
				atomic.AddInt64(&ready, 1)
				for atomic.LoadInt64(&ready) < int64(threads) {
				}
				for j, op := range progs[t] {
					inv := atomic.AddInt64(&clock, 1)
					if yields[t][j] {
						runtime.Gosched()
					}
					ret := env.call(op)
					r := atomic.AddInt64(&clock, 1)
					res[t] = append(res[t], Ev{"op": op, "ret": ret, "inv": inv, "res": r})
				}
			}(t)
		}
		wg.Wait()
		src := "conc"
		if threads == 1 {
			src = "seq"
		}
		tr.emit(Ev{"ev": "hist", "src": src, "first": "m1", "threads": res})
	}
	return tr.close()
}
