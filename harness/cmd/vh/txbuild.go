package main

// txbuild: builder call sequences on live *bt.Tx objects, recorded for Trace_TxBuild.tla.
// Sequences are either random (generated here) or the ones TLC emitted from MC_TxBuild.
// After every call the observers of every live object are logged.

import (
	"bytes"
	"context"
	"encoding/binary"
	"encoding/hex"
	"flag"
	"math/rand"

	"github.com/libsv/go-bk/bec"
	"github.com/libsv/go-bt/v2"
	"github.com/libsv/go-bt/v2/bscript"
	"github.com/libsv/go-bt/v2/unlocker"
)

func init() { register("txbuild", txbuildCmd) }

func b64(v uint64) []byte { b := make([]byte, 8); binary.LittleEndian.PutUint64(b, v); return b }
func b32(v uint32) []byte { b := make([]byte, 4); binary.LittleEndian.PutUint32(b, v); return b }

func presentIn(tx *bt.Tx, k int) bool  { return tx.InputIdx(k) != nil }
func presentOut(tx *bt.Tx, k int) bool { return tx.OutputIdx(k) != nil }

func viewOf(tx *bt.Tx) Ev {
	n, m := len(tx.Inputs), len(tx.Outputs)
	n0, m0 := n-1, m-1
	if n0 < 0 {
		n0 = 0
	}
	if m0 < 0 {
		m0 = 0
	}
	std := tx.Bytes()
	return Ev{
		"std": ints(std), "ext": ints(tx.ExtendedBytes()), "txid": ints(tx.TxIDBytes()), "size": tx.Size(),
		"nin": tx.InputCount(), "nout": tx.OutputCount(),
		"totin": ints(b64(tx.TotalInputSatoshis())), "totout": ints(b64(tx.TotalOutputSatoshis())),
		"cb": tx.IsCoinbase(), "hasdata": tx.HasDataOutputs(),
		"inidx":  []bool{presentIn(tx, n0), presentIn(tx, n), presentIn(tx, n+1)},
		"outidx": []bool{presentOut(tx, m0), presentOut(tx, m), presentOut(tx, m+1)},
		"poh":    ints(tx.PreviousOutHash()), "sqh": ints(tx.SequenceHash()),
	}
}

func views(objs []*bt.Tx) []Ev {
	out := make([]Ev, len(objs))
	for i, t := range objs {
		out[i] = viewOf(t)
	}
	return out
}

func m2bytes(m map[string]interface{}, k string) []byte { return unints(m[k]) }

func listOfBytes(v interface{}) [][]byte {
	a, _ := v.([]interface{})
	out := make([][]byte, len(a))
	for i, x := range a {
		out[i] = unints(x)
	}
	return out
}

func intsList(bb [][]byte) [][]int {
	out := make([][]int, len(bb))
	for i, b := range bb {
		out[i] = ints(b)
	}
	return out
}

// applyOp performs op (as decoded JSON) on objs[o]; returns the reply class, the possibly
// longer object table and the op record to log (oracle values / produced scripts filled in).
func applyOp(objs []*bt.Tx, o int, op map[string]interface{}, key *bec.PrivateKey) (string, []*bt.Tx, Ev) {
	tx := objs[o]
	logged := Ev{}
	for k, v := range op {
		logged[k] = v
	}
	res := "ok"
	errRes := func(err error) {
		if err != nil {
			res = "err"
		}
	}
	switch op["k"].(string) {
	case "from":
		errRes(tx.From(string(m2bytes(op, "txidc")), binary.LittleEndian.Uint32(m2bytes(op, "vout")),
			string(m2bytes(op, "psc")), binary.LittleEndian.Uint64(m2bytes(op, "sats"))))
	case "fromutxos":
		var us []*bt.UTXO
		for _, x := range op["utxos"].([]interface{}) {
			u := x.(map[string]interface{})
			us = append(us, &bt.UTXO{TxID: m2bytes(u, "id"), Vout: binary.LittleEndian.Uint32(m2bytes(u, "vout")),
				LockingScript: bscript.NewFromBytes(m2bytes(u, "ps")), Satoshis: binary.LittleEndian.Uint64(m2bytes(u, "sats")),
				SequenceNumber: uint32(len(us)) * 0x7fffffff}) // whatever the record carries: inputs are added final
		}
		errRes(tx.FromUTXOs(us...))
	case "addoutput":
		tx.AddOutput(&bt.Output{Satoshis: binary.LittleEndian.Uint64(m2bytes(op, "sats")), LockingScript: bscript.NewFromBytes(m2bytes(op, "ls"))})
	case "payto":
		errRes(tx.PayTo(bscript.NewFromBytes(m2bytes(op, "ls")), binary.LittleEndian.Uint64(m2bytes(op, "sats"))))
	case "pkhstr":
		errRes(tx.AddP2PKHOutputFromPubKeyHashStr(string(m2bytes(op, "hc")), binary.LittleEndian.Uint64(m2bytes(op, "sats"))))
	case "pkbytes":
		pk := m2bytes(op, "pk")
		logged["h160"] = ints(hash160(pk))
		errRes(tx.AddP2PKHOutputFromPubKeyBytes(pk, binary.LittleEndian.Uint64(m2bytes(op, "sats"))))
	case "hashpuzzle":
		secret := m2bytes(op, "secret")
		logged["h160"] = ints(hash160(secret))
		errRes(tx.AddHashPuzzleOutput(string(secret), string(m2bytes(op, "hc")), binary.LittleEndian.Uint64(m2bytes(op, "sats"))))
	case "opreturn":
		parts := listOfBytes(op["parts"])
		if len(parts) == 1 && op["single"] == true {
			errRes(tx.AddOpReturnOutput(parts[0]))
		} else {
			errRes(tx.AddOpReturnPartsOutput(parts))
		}
	case "inscribe", "inscribeat":
		pfx := bscript.NewFromBytes(m2bytes(op, "prefix"))
		if src, ok := op["aliasobj"]; ok {
			// the prefix is a sub-slice of a locking script of another live object (as ParseInscription returns it)
			if t := objs[num(src)%len(objs)]; len(t.Outputs) > 0 && len(*t.Outputs[len(t.Outputs)-1].LockingScript) >= 25 {
				pfx = t.Outputs[len(t.Outputs)-1].LockingScript.Slice(0, 25)
				logged["prefix"] = ints(*pfx)
			}
		}
		ia := &bscript.InscriptionArgs{LockingScriptPrefix: pfx, Data: m2bytes(op, "data"), ContentType: string(m2bytes(op, "ct"))}
		if op["k"] == "inscribe" {
			errRes(tx.Inscribe(ia))
		} else {
			errRes(tx.InscribeSpecificOrdinal(ia, uint32(num(op["idx"])), binary.LittleEndian.Uint64(m2bytes(op, "satidx")), bscript.NewFromBytes(m2bytes(op, "extra"))))
		}
	case "insertus":
		var err error
		if p, _ := guard(func() {
			err = tx.InsertInputUnlockingScript(uint32(num(op["idx"])), bscript.NewFromBytes(m2bytes(op, "us")))
		}); p {
			res = "panic"
		} else {
			errRes(err)
		}
	case "set":
		v := m2bytes(op, "v")
		switch op["f"].(string) {
		case "lt":
			tx.LockTime = binary.LittleEndian.Uint32(v)
		case "ver":
			tx.Version = binary.LittleEndian.Uint32(v)
		case "seq":
			if i := num(op["idx"]); i < len(tx.Inputs) {
				tx.Inputs[i].SequenceNumber = binary.LittleEndian.Uint32(v)
			}
		}
	case "change", "changeexisting":
		qm := op["q"].(map[string]interface{})
		q := quote{num(qm["ss"]), num(qm["sb"]), num(qm["ds"]), num(qm["db"])}
		if _, perr := bt.NewTxFromBytes(tx.Bytes()); perr != nil && tx.TotalInputSatoshis() >= tx.TotalOutputSatoshis() &&
			(op["k"] == "change" || num(op["idx"]) < len(tx.Outputs)) {
			res = "fatal" // the size estimate would Clone() and log.Fatal: not called
		} else if op["k"] == "change" {
			errRes(tx.Change(bscript.NewFromBytes(m2bytes(op, "ls")), q.fq()))
		} else {
			errRes(tx.ChangeToExistingOutput(uint(num(op["idx"])), q.fq()))
		}
	case "sign":
		errRes(tx.FillAllInputs(context.Background(), &unlocker.Getter{PrivateKey: key}))
		uss := make([][]int, len(tx.Inputs))
		for i, in := range tx.Inputs {
			if in.UnlockingScript != nil {
				uss[i] = ints(*in.UnlockingScript)
			} else {
				uss[i] = []int{}
			}
		}
		logged["us"] = uss
		logged["pk"] = ints(key.PubKey().SerialiseCompressed())
	case "clone":
		if _, err := bt.NewTxFromBytes(tx.Bytes()); err != nil {
			res = "fatal" // Clone would log.Fatal: not called
		} else {
			objs = append(objs, tx.Clone())
		}
	case "reparse":
		b := tx.Bytes()
		if op["ext"].(bool) {
			b = tx.ExtendedBytes()
		}
		if t2, err := bt.NewTxFromBytes(b); err != nil {
			res = "err"
		} else {
			objs = append(objs, t2)
		}
	default:
		res = "unknown"
	}
	return res, objs, logged
}

// ---- random call sequences -------------------------------------------------------------------

func hexCodes(b []byte) []int { return ints([]byte(hex.EncodeToString(b))) }

func randScript(rng *rand.Rand, key *bec.PrivateKey) []byte {
	switch rng.Intn(10) {
	case 0, 1, 2:
		s, _ := bscript.NewP2PKHFromPubKeyBytes(key.PubKey().SerialiseCompressed())
		return *s
	case 3:
		return *p2pkhScript(byte(rng.Intn(256)))
	case 4:
		return append([]byte{0x00, 0x6a}, randBytes(rng, rng.Intn(12))...)
	case 5:
		return append([]byte{0x6a}, randBytes(rng, rng.Intn(6))...)
	case 6:
		return []byte{}
	case 7:
		return *inscriptionScript(key, 1+rng.Intn(5))
	case 8:
		return *fillerScript(250+rng.Intn(8), rng.Intn(2) == 0)
	default:
		return randBytes(rng, 1+rng.Intn(30))
	}
}

func randSats(rng *rand.Rand) []byte {
	switch rng.Intn(20) {
	case 0:
		return b64(0)
	case 1:
		return randBytes(rng, 8)
	case 2:
		return b64(uint64(1) << uint(26+rng.Intn(38)))
	default:
		return b64(uint64(rng.Intn(200000)))
	}
}

func randTxidCodes(rng *rand.Rand) []int {
	id := randBytes(rng, 32)
	if rng.Intn(8) == 0 {
		id = make([]byte, 32)
	}
	s := hex.EncodeToString(id)
	switch rng.Intn(14) {
	case 0:
		s = s[:62]
	case 1:
		s += "00"
	case 2:
		s = s[:63]
	case 3:
		s = s[:10] + "g" + s[11:]
	case 4:
		s = string(bytes.ToUpper([]byte(s)))
	case 5:
		s = ""
	}
	return ints([]byte(s))
}

func randOp(rng *rand.Rand, objs []*bt.Tx, o int, key *bec.PrivateKey) Ev {
	tx := objs[o]
	q := quotes[rng.Intn(len(quotes))]
	switch rng.Intn(24) {
	case 22, 23:
		e := Ev{"k": "inscribe", "prefix": ints(randScript(rng, key)), "ct": ints(randBytes(rng, []int{0, 1, 9, 76}[rng.Intn(4)])), "data": ints(randBytes(rng, []int{0, 1, 5, 75, 76, 256}[rng.Intn(6)]))}
		if rng.Intn(3) == 0 {
			e["aliasobj"] = rng.Intn(3)
		}
		if rng.Intn(2) == 0 {
			e["k"], e["idx"], e["satidx"], e["extra"] = "inscribeat", rng.Intn(len(tx.Inputs)+2), ints(randSats(rng)), ints(randScript(rng, key))
		}
		return e
	case 0, 1, 2:
		ps := hexCodes(randScript(rng, key))
		if rng.Intn(12) == 0 {
			ps = ints([]byte("6a0"))
		}
		return Ev{"k": "from", "txidc": randTxidCodes(rng), "vout": ints(b32(uint32(rng.Intn(3)) * 0x7fffffff)), "psc": ps, "sats": ints(randSats(rng))}
	case 3, 4:
		n := rng.Intn(4)
		us := make([]Ev, n)
		for i := range us {
			id := randBytes(rng, 32)
			if rng.Intn(7) == 0 {
				id = randBytes(rng, []int{0, 31, 33}[rng.Intn(3)])
			}
			us[i] = Ev{"id": ints(id), "vout": ints(b32(rng.Uint32())), "ps": ints(randScript(rng, key)), "sats": ints(randSats(rng))}
		}
		return Ev{"k": "fromutxos", "utxos": us}
	case 5, 6:
		return Ev{"k": "addoutput", "sats": ints(randSats(rng)), "ls": ints(randScript(rng, key))}
	case 7:
		ls := randScript(rng, key)
		if rng.Intn(3) == 0 && len(ls) == 25 {
			ls[rng.Intn(25)] ^= byte(1 << uint(rng.Intn(8)))
		}
		if rng.Intn(6) == 0 {
			ls = append(ls, 0x61)
		}
		return Ev{"k": "payto", "sats": ints(randSats(rng)), "ls": ints(ls)}
	case 8:
		h := hexCodes(randBytes(rng, []int{20, 20, 20, 0, 19, 21}[rng.Intn(6)]))
		if rng.Intn(8) == 0 {
			h = append(h, int('x'))
		}
		return Ev{"k": "pkhstr", "sats": ints(randSats(rng)), "hc": h}
	case 9:
		pk := key.PubKey().SerialiseCompressed()
		if rng.Intn(3) == 0 {
			pk = randBytes(rng, []int{32, 33, 34, 65, 0}[rng.Intn(5)])
		}
		return Ev{"k": "pkbytes", "sats": ints(randSats(rng)), "pk": ints(pk)}
	case 10:
		h := hexCodes(randBytes(rng, []int{20, 20, 0, 76, 5}[rng.Intn(5)]))
		if rng.Intn(8) == 0 && len(h) > 0 {
			h = h[:len(h)-1]
		}
		return Ev{"k": "hashpuzzle", "sats": ints(randSats(rng)), "secret": ints(randBytes(rng, rng.Intn(9))), "hc": h}
	case 11, 12:
		n := rng.Intn(4)
		parts := make([][]int, n)
		for i := range parts {
			parts[i] = ints(randBytes(rng, []int{0, 1, 2, 75, 76, 77, 255, 256, 3}[rng.Intn(9)]))
		}
		return Ev{"k": "opreturn", "parts": parts, "single": n == 1 && rng.Intn(2) == 0}
	case 13:
		return Ev{"k": "insertus", "idx": rng.Intn(len(tx.Inputs) + 2), "us": ints(randBytes(rng, rng.Intn(6)))}
	case 14:
		f := []string{"lt", "ver", "seq"}[rng.Intn(3)]
		v := randBytes(rng, 4)
		if rng.Intn(3) == 0 {
			v = []byte{0, 0, 0, 0xef}
		}
		return Ev{"k": "set", "f": f, "idx": rng.Intn(len(tx.Inputs) + 1), "v": ints(v)}
	case 15, 16:
		return Ev{"k": "change", "ls": ints(randScript(rng, key)), "q": q.ev()}
	case 17:
		return Ev{"k": "changeexisting", "idx": rng.Intn(len(tx.Outputs) + 2), "q": q.ev()}
	case 18:
		return Ev{"k": "sign"}
	case 19:
		return Ev{"k": "clone"}
	default:
		return Ev{"k": "reparse", "ext": rng.Intn(2) == 0}
	}
}

func txbuildCmd(args []string) error {
	fs := flag.NewFlagSet("txbuild", flag.ExitOnError)
	out := fs.String("out", "txbuild.ndjson", "trace file")
	casesPath := fs.String("cases", "", "call sequences emitted by MC_TxBuild")
	n := fs.Int("n", 200, "random sequences")
	maxLen := fs.Int("len", 8, "calls per random sequence")
	fs.Parse(args)
	tr, err := newTrace(*out)
	if err != nil {
		return err
	}
	key, _ := bec.NewPrivateKey(bec.S256())
	run := func(next func(objs []*bt.Tx, step int) (int, map[string]interface{}, bool)) {
		objs := []*bt.Tx{bt.NewTx()}
		tr.emit(Ev{"ev": "begin", "views": views(objs)})
		for step := 0; ; step++ {
			o, op, more := next(objs, step)
			if !more {
				return
			}
			var res string
			var logged Ev
			res, objs, logged = applyOp(objs, o, op, key)
			tr.emit(Ev{"ev": "op", "o": o + 1, "op": logged, "res": res, "views": views(objs)})
		}
	}
	if *casesPath != "" {
		cs, err := readNDJSON(*casesPath)
		if err != nil {
			return err
		}
		for _, c := range cs {
			ops := c["ops"].([]interface{})
			run(func(objs []*bt.Tx, step int) (int, map[string]interface{}, bool) {
				if step >= len(ops) {
					return 0, nil, false
				}
				m := ops[step].(map[string]interface{})
				o := num(m["o"]) - 1
				if o >= len(objs) {
					return 0, nil, false
				}
				return o, m["op"].(map[string]interface{}), true
			})
		}
	}
	rng := newRand(4242)
	for i := 0; i < *n; i++ {
		steps := 2 + rng.Intn(*maxLen)
		run(func(objs []*bt.Tx, step int) (int, map[string]interface{}, bool) {
			if step >= steps {
				return 0, nil, false
			}
			o := rng.Intn(len(objs))
			op := randOp(rng, objs, o, key)
			if (op["k"] == "clone" || op["k"] == "reparse") && len(objs) >= 3 {
				op = Ev{"k": "sign"}
			}
			// through JSON, so that both sources are decoded identically
			return o, roundTripJSON(op), true
		})
	}
	return tr.close()
}
