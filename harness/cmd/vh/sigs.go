package main

import (
	"bytes"
	"crypto/sha256"
	"encoding/binary"
	"encoding/json"
	"flag"
	"math/big"
	"math/rand"
	"os"

	"context"

	"github.com/libsv/go-bk/bec"
	"github.com/libsv/go-bt/v2"
	"github.com/libsv/go-bt/v2/bscript"
	"github.com/libsv/go-bt/v2/bscript/interpreter/scriptflag"
	"github.com/libsv/go-bt/v2/sighash"
	"github.com/libsv/go-bt/v2/unlocker"
)

func init() { register("sigs", sigsCmd) }

// ---- the harness' own preimage builder (used ONLY to produce signatures; whether the bytes it
// ---- signs are the right preimage is decided by SigCheck.tla / SigHash.tla) ------------------------

func sha256d(b []byte) []byte {
	a := sha256.Sum256(b)
	c := sha256.Sum256(a[:])
	return c[:]
}

func outBytes(o caseOut) []byte {
	b := make([]byte, 8)
	binary.LittleEndian.PutUint64(b, o.Sats)
	s := toBytes(o.Script)
	return append(append(b, vint(uint64(len(s)), minWidth(uint64(len(s))))...), s...)
}

func outpoint(i caseIn) []byte {
	b := bytes.Repeat([]byte{byte(i.Tag)}, 32)
	v := make([]byte, 4)
	binary.LittleEndian.PutUint32(v, i.Vout)
	return append(b, v...)
}

func u32(v uint32) []byte { b := make([]byte, 4); binary.LittleEndian.PutUint32(b, v); return b }

func myPreimageH(tx *caseTx, idx int, code []byte, amount uint64, ht byte, fork bool) ([]byte, [][2][]byte) {
	var hs [][2][]byte
	h := func(b []byte) []byte {
		o := sha256d(b)
		hs = append(hs, [2][]byte{append([]byte{}, b...), o})
		return o
	}
	base := ht & 0x1f
	acp := ht&0x80 != 0
	if fork {
		zero := make([]byte, 32)
		hp, hsq, ho := zero, zero, zero
		if !acp {
			var b []byte
			for _, i := range tx.Ins {
				b = append(b, outpoint(i)...)
			}
			hp = h(b)
		}
		if !acp && base != 2 && base != 3 {
			var b []byte
			for _, i := range tx.Ins {
				b = append(b, u32(i.Seq)...)
			}
			hsq = h(b)
		}
		if base != 2 && base != 3 {
			var b []byte
			for _, o := range tx.Outs {
				b = append(b, outBytes(o)...)
			}
			ho = h(b)
		} else if base == 3 && idx < len(tx.Outs) {
			ho = h(outBytes(tx.Outs[idx]))
		}
		var p []byte
		p = append(p, u32(tx.Ver)...)
		p = append(p, hp...)
		p = append(p, hsq...)
		p = append(p, outpoint(tx.Ins[idx])...)
		p = append(p, vint(uint64(len(code)), minWidth(uint64(len(code))))...)
		p = append(p, code...)
		a := make([]byte, 8)
		binary.LittleEndian.PutUint64(a, amount)
		p = append(p, a...)
		p = append(p, u32(tx.Ins[idx].Seq)...)
		p = append(p, ho...)
		p = append(p, u32(tx.Lt)...)
		return append(p, ht, 0, 0, 0), hs
	}
	if base == 3 && idx >= len(tx.Outs) {
		one := make([]byte, 32)
		one[0] = 1
		return one, hs
	}
	var p []byte
	p = append(p, u32(tx.Ver)...)
	ins := tx.Ins
	if acp {
		ins = []caseIn{tx.Ins[idx]}
		p = append(p, 1)
	} else {
		p = append(p, vint(uint64(len(ins)), minWidth(uint64(len(ins))))...)
	}
	for k, i := range ins {
		p = append(p, outpoint(i)...)
		me := acp || k == idx
		if me {
			p = append(p, vint(uint64(len(code)), minWidth(uint64(len(code))))...)
			p = append(p, code...)
			p = append(p, u32(i.Seq)...)
		} else {
			p = append(p, 0)
			if base == 2 || base == 3 {
				p = append(p, 0, 0, 0, 0)
			} else {
				p = append(p, u32(i.Seq)...)
			}
		}
	}
	switch base {
	case 2:
		p = append(p, 0)
	case 3:
		p = append(p, vint(uint64(idx+1), 1)...)
		for k := 0; k < idx; k++ {
			p = append(p, 0xff, 0xff, 0xff, 0xff, 0xff, 0xff, 0xff, 0xff, 0)
		}
		p = append(p, outBytes(tx.Outs[idx])...)
	default:
		p = append(p, vint(uint64(len(tx.Outs)), minWidth(uint64(len(tx.Outs))))...)
		for _, o := range tx.Outs {
			p = append(p, outBytes(o)...)
		}
	}
	p = append(p, u32(tx.Lt)...)
	return append(p, ht, 0, 0, 0), hs
}

func myPreimage(tx *caseTx, idx int, code []byte, amount uint64, ht byte, fork bool) []byte {
	p, _ := myPreimageH(tx, idx, code, amount, ht, fork)
	return p
}

func derInt(v *big.Int) []byte {
	b := v.Bytes()
	if len(b) == 0 {
		b = []byte{0}
	}
	if b[0]&0x80 != 0 {
		b = append([]byte{0}, b...)
	}
	return append([]byte{0x02, byte(len(b))}, b...)
}

func derEncode(r, s *big.Int) []byte {
	body := append(derInt(r), derInt(s)...)
	return append([]byte{0x30, byte(len(body))}, body...)
}

type keyPair struct {
	id   int
	priv *bec.PrivateKey
}

type hashPair struct {
	In  []int `json:"in"`
	Out []int `json:"out"`
}
type sigNote struct {
	Bytes  []int      `json:"bytes"`
	Signer int        `json:"signer"`
	Pre    []int      `json:"pre"`
	Hs     []hashPair `json:"hs"` // the hashes embedded in Pre: what was hashed -> the 32 bytes
}

func hsOf(tx *caseTx, idx int, code []byte, amount uint64, ht byte, fork bool) []hashPair {
	_, hs := myPreimageH(tx, idx, code, amount, ht, fork)
	out := []hashPair{}
	for _, x := range hs {
		out = append(out, hashPair{ints(x[0]), ints(x[1])})
	}
	return out
}

// scenario builder state
type scen struct {
	carrySats              *uint64 // set by the commit scenarios: what the signed tx object carries
	carryScript            []byte
	frameBroken            bool // library signing changed something other than unlocking scripts
	forgedN, forgedVariant int  // when set: the next forged signature uses this S length / variant
	rng                    *rand.Rand
	keys                   []keyPair
	notes                  []sigNote
	knote                  []Ev
	seenK                  map[string]bool
}

func (s *scen) keyBytes(k keyPair, form string) []byte {
	var b []byte
	switch form {
	case "uncomp":
		b = k.priv.PubKey().SerialiseUncompressed()
	case "hybrid":
		b = k.priv.PubKey().SerialiseHybrid()
	case "badlen":
		b = k.priv.PubKey().SerialiseCompressed()[:32]
		return b // not a key of anybody
	case "badprefix":
		b = append([]byte{}, k.priv.PubKey().SerialiseCompressed()...)
		b[0] = 0x05
		return b
	default:
		b = k.priv.PubKey().SerialiseCompressed()
	}
	if !s.seenK[string(b)] {
		s.seenK[string(b)] = true
		s.knote = append(s.knote, Ev{"bytes": ints(b), "id": k.id})
	}
	return b
}

// sign: class in valid | highs | wrongkey | wrongmsg | empty | garbage | badder | forged
func (s *scen) sign(class string, k keyPair, tx *caseTx, idx int, code []byte, amount uint64, ht byte, fork bool) []byte {
	if class == "empty" {
		return []byte{}
	}
	if class == "garbage" {
		g := randBytes(s.rng, 10+s.rng.Intn(30))
		g[0] = 0x31
		return append(g, ht)
	}
	if class == "forged" {
		// well-formed DER made by nobody: R random, S of every byte length with high leading bytes
		// (numerically far below half the group order when short, lexicographically "large")
		// S = the first n bytes of half the group order, last byte +-1 (n = 1..32): short values are
		// numerically tiny, yet compare "greater" byte-wise; n = 32 is the real boundary
		half, _ := new(big.Int).SetString("7fffffffffffffffffffffffffffffff5d576e7357a4501ddfe92f46681b20a0", 16)
		n := 1 + s.rng.Intn(32)
		variant := s.rng.Intn(4)
		if s.forgedN > 0 {
			n, variant = s.forgedN, s.forgedVariant
		}
		sb := append([]byte{}, half.Bytes()[:n]...)
		switch variant {
		case 0:
			sb[n-1]++
		case 1:
			sb[n-1]--
		case 2:
			copy(sb[n/2:], randBytes(s.rng, n-n/2))
		}
		if sb[0] >= 0x80 || new(big.Int).SetBytes(sb).Sign() == 0 {
			sb[0] = 0x01
		}
		if s.forgedN == 0 && s.rng.Intn(5) == 0 {
			// perfectly formed DER whose R or S is outside 1..N-1 (0, N, N+1, 2^256-1)
			nn := bec.S256().N
			vals := []*big.Int{big.NewInt(0), nn, new(big.Int).Add(nn, big.NewInt(1)), new(big.Int).Sub(new(big.Int).Lsh(big.NewInt(1), 256), big.NewInt(1))}
			rv, sv2 := new(big.Int).SetBytes(randBytes(s.rng, 31)), new(big.Int).SetBytes(sb)
			if s.rng.Intn(2) == 0 {
				rv = vals[s.rng.Intn(len(vals))]
			} else {
				sv2 = vals[s.rng.Intn(len(vals))]
			}
			return append(derEncode(rv, sv2), ht)
		}
		rb := randBytes(s.rng, 32)
		rb[0] = 0x11
		return append(derEncode(new(big.Int).SetBytes(rb), new(big.Int).SetBytes(sb)), ht)
	}
	signer := k
	if class == "wrongkey" {
		signer = s.keys[(k.id)%len(s.keys)] // a different key (ids are 1-based)
	}
	pre := myPreimage(tx, idx, code, amount, ht, fork)
	hsn := hsOf(tx, idx, code, amount, ht, fork)
	if class == "wrongmsg" {
		t2 := *tx
		t2.Lt = tx.Lt + 1
		pre = myPreimage(&t2, idx, code, amount, ht, fork)
		hsn = hsOf(&t2, idx, code, amount, ht, fork)
	}
	digest := pre
	if !(len(pre) == 32 && !fork) {
		digest = sha256d(pre)
	}
	sig, err := signer.priv.Sign(digest)
	if err != nil {
		return []byte{}
	}
	r, sv := sig.R, sig.S
	if class == "highs" {
		sv = new(big.Int).Sub(bec.S256().N, sv)
	}
	der := derEncode(r, sv)
	if class == "badder" {
		// not strict DER (extra leading zero in R) but the same (r, s)
		rb := derInt(r)
		rb = append([]byte{0x02, rb[1] + 1, 0x00}, rb[2:]...)
		body := append(rb, derInt(sv)...)
		der = append([]byte{0x30, byte(len(body))}, body...)
	}
	full := append(der, ht)
	s.notes = append(s.notes, sigNote{Bytes: ints(full), Signer: signer.id, Pre: ints(pre), Hs: hsn})
	return full
}

func pushBytes(d []byte) []byte {
	n := len(d)
	switch {
	case n == 0:
		return []byte{0}
	case n <= 75:
		return append([]byte{byte(n)}, d...)
	case n <= 255:
		return append([]byte{0x4c, byte(n)}, d...)
	}
	return append([]byte{0x4d, byte(n), byte(n >> 8)}, d...)
}

var stdHashTypes = []byte{0x01, 0x02, 0x03, 0x81, 0x82, 0x83}

func sigsCmd(args []string) error {
	fs := flag.NewFlagSet("sigs", flag.ExitOnError)
	out := fs.String("out", "sigs-cases.ndjson", "vm cases file (then run `vh vm -cases`)")
	n := fs.Int("n", 600, "scenarios per family")
	mode := fs.String("mode", "sigops", "sigops (C06 scenarios) | commit (C04: library-made signatures and mutations)")
	fs.Parse(args)
	rng := newRand(6)
	s := &scen{rng: rng, seenK: map[string]bool{}}
	for i := 1; i <= 4; i++ {
		p, _ := bec.NewPrivateKey(bec.S256())
		s.keys = append(s.keys, keyPair{i, p})
	}
	f, err := os.Create(*out)
	if err != nil {
		return err
	}
	defer f.Close()
	flagPool := []scriptflag.Flag{scriptflag.VerifyStrictEncoding, scriptflag.VerifyDERSignatures, scriptflag.VerifyLowS, scriptflag.StrictMultiSig,
		scriptflag.VerifyNullFail, scriptflag.EnableSighashForkID, scriptflag.UTXOAfterGenesis}
	randFlags := func() scriptflag.Flag {
		var fl scriptflag.Flag
		for _, x := range flagPool {
			if rng.Intn(2) == 0 {
				fl |= x
			}
		}
		return fl
	}
	randTx := func() (*caseTx, int, uint64) {
		tx := &caseTx{Ver: []uint32{1, 2}[rng.Intn(2)], Lt: uint32(rng.Intn(3))}
		nin := 1 + rng.Intn(3)
		for i := 0; i < nin; i++ {
			tx.Ins = append(tx.Ins, caseIn{Tag: 0x30 + i, Vout: uint32(rng.Intn(3)), Seq: []uint32{0xffffffff, 0xfffffffe, 5}[rng.Intn(3)]})
		}
		for i, nout := 0, rng.Intn(4); i < nout; i++ {
			tx.Outs = append(tx.Outs, caseOut{Sats: uint64(1000 + rng.Intn(5000)), Script: ints(append([]byte{0x76, 0xa9, 0x14}, append(bytes.Repeat([]byte{byte(i + 1)}, 20), 0x88, 0xac)...))})
		}
		return tx, rng.Intn(nin), uint64(rng.Intn(100000))
	}
	classes := []string{"valid", "valid", "valid", "highs", "wrongkey", "wrongmsg", "empty", "garbage", "badder", "forged"}
	forms := []string{"comp", "comp", "uncomp", "hybrid", "badlen", "badprefix"}
	emit := func(id, src string, unlock, lock []byte, fl scriptflag.Flag, tx *caseTx, idx int, amount uint64) {
		// projected transaction for SigHash.tla
		ins := []Ev{}
		for k, i := range tx.Ins {
			us := []int{}
			if k == idx {
				us = ints(unlock)
			}
			ins = append(ins, Ev{"txid": ints(bytes.Repeat([]byte{byte(i.Tag)}, 32)), "vout": le32(i.Vout), "us": us, "seq": le32(i.Seq),
				"sats": le64(map[bool]uint64{true: amount, false: 0}[k == idx]), "ps": []int{}, "hasid": true, "hasps": true})
		}
		outs := []Ev{}
		for _, o := range tx.Outs {
			outs = append(outs, Ev{"sats": le64(o.Sats), "ls": o.Script})
		}
		sx := Ev{"tx": Ev{"ver": le32(tx.Ver), "ins": ins, "outs": outs, "lt": le32(tx.Lt)}, "idx": idx, "sigs": s.notes, "keys": s.knote, "frame": !s.frameBroken}
		if s.notes == nil {
			sx["sigs"] = []sigNote{}
		}
		if s.knote == nil {
			sx["keys"] = []Ev{}
		}
		c := vmCase{ID: id, Unlock: ints(unlock), Lock: ints(lock), Flags: uint32(fl), Src: src, Tx: tx, TxIdx: idx, Amount: amount, Sx: sx}
		if s.carrySats != nil {
			v := *s.carrySats
			c.CarrySats, c.CarryScript = &v, ints(s.carryScript)
		}
		b, _ := json.Marshal(c)
		f.Write(append(b, '\n'))
		s.notes, s.knote, s.seenK = nil, nil, map[string]bool{}
	}
	pickHT := func(fl scriptflag.Flag) byte {
		ht := stdHashTypes[rng.Intn(len(stdHashTypes))]
		switch r := rng.Intn(12); {
		case r == 0:
			ht = []byte{0x00, 0x04, 0x21, 0x1f, 0x84}[rng.Intn(5)]
		}
		useFork := fl&scriptflag.EnableSighashForkID != 0
		if rng.Intn(6) == 0 {
			useFork = !useFork // fork bit disagreeing with the flag
		}
		if useFork {
			ht |= 0x40
		}
		return ht
	}
	isFork := func(fl scriptflag.Flag, ht byte) bool { return fl&scriptflag.EnableSighashForkID != 0 && ht&0x40 != 0 }

	if *mode == "commit" {
		return commitScenarios(s, rng, *n, emit)
	}
	for i := 0; i < *n; i++ {
		// ---- family 1: P2PK / P2PKH, CHECKSIG(VERIFY), code separators -------------------------------
		fl := randFlags()
		tx, idx, amount := randTx()
		k := s.keys[rng.Intn(len(s.keys))]
		form := forms[rng.Intn(len(forms))]
		kb := s.keyBytes(k, form)
		ht := pickHT(fl)
		var lock, code []byte
		verify := rng.Intn(4) == 0
		op := byte(0xac)
		if verify {
			op = 0xad
		}
		sepKind := rng.Intn(6)
		switch sepKind {
		case 0: // separator first: code = after it
			lock = append([]byte{0xab}, append(pushBytes(kb), op)...)
			code = lock[1:]
		case 1: // separator in an unexecuted branch + after the sig op
			lock = append(append([]byte{0x00, 0x63, 0xab, 0x68}, pushBytes(kb)...), op, 0xab)
			code = lock
		case 2: // executed separator between key push and the op
			lock = append(append(pushBytes(kb), 0xab), op)
			code = []byte{op}
		default:
			lock = append(pushBytes(kb), op)
			if rng.Intn(6) == 0 {
				// the key pushed in a non-minimal form (PUSHDATA1 / PUSHDATA2): the script code signatures
				// commit to is the script as written, not a re-encoding of it
				if rng.Intn(2) == 0 {
					lock = append(append([]byte{0x4c, byte(len(kb))}, kb...), op)
				} else {
					lock = append(append([]byte{0x4d, byte(len(kb)), 0x00}, kb...), op)
				}
			}
			if !verify && rng.Intn(3) == 0 {
				// the result is consumed: "false" and "error" are different verdicts here
				lock = append(lock, 0x91)
			}
			code = lock
		}
		if verify {
			lock = append(lock, 0x51)
			if sepKind != 0 && sepKind != 2 {
				code = lock
			} else {
				code = append(code, 0x51)
			}
		}
		scode := code
		if !isFork(fl, ht) { // legacy: separators are removed from the script code by the digest algorithm
			scode = bytes.ReplaceAll(code, []byte{0xab}, nil)
		}
		if rng.Intn(10) == 0 { // a signer that (wrongly) signs the whole locking script
			scode = lock
		}
		class := classes[rng.Intn(len(classes))]
		sig := s.sign(class, k, tx, idx, scode, amount, ht, isFork(fl, ht))
		emit("p2pk", "p2pk-"+class, pushBytes(sig), lock, fl, tx, idx, amount)

		// ---- family 2: m-of-n multisig -----------------------------------------------------------------
		fl = randFlags()
		tx, idx, amount = randTx()
		nk := rng.Intn(4)
		m := 0
		if nk > 0 {
			m = rng.Intn(nk + 1)
		}
		// one scenario in eight: at least two signers, all valid and in order, whose hash types alternate
		// between a base type and the same type with ANYONECANPAY (each signature has its own digest)
		alternate := i%8 == 3
		if alternate {
			nk = 2 + rng.Intn(2)
			m = 2 + rng.Intn(nk-1)
		}
		var ks []keyPair
		perm := rng.Perm(len(s.keys))
		for j := 0; j < nk; j++ {
			ks = append(ks, s.keys[perm[j]])
		}
		lock = []byte{byte(0x50 + m)}
		if m == 0 {
			lock = []byte{0x00}
		}
		kform := "comp"
		if rng.Intn(5) == 0 {
			kform = forms[rng.Intn(len(forms))]
		}
		for _, kk := range ks {
			lock = append(lock, pushBytes(s.keyBytes(kk, kform))...)
		}
		nb := byte(0x50 + nk)
		if nk == 0 {
			nb = 0x00
		}
		mop := byte(0xae)
		if rng.Intn(5) == 0 {
			mop = 0xaf
		}
		lock = append(lock, nb, mop)
		if mop == 0xaf {
			lock = append(lock, 0x51)
		}
		if rng.Intn(6) == 0 {
			lock = append(lock, 0xab) // a separator after the op is part of the script code
		}
		ht = pickHT(fl)
		scode = lock
		if !isFork(fl, ht) {
			scode = bytes.ReplaceAll(lock, []byte{0xab}, nil)
		}
		// choose which keys sign: in order, out of order, wrong, empty...
		mode := rng.Intn(6)
		if alternate {
			mode = 0
		}
		var order []int
		for j := 0; j < nk; j++ {
			order = append(order, j)
		}
		switch mode {
		case 1:
			rng.Shuffle(len(order), func(a, b int) { order[a], order[b] = order[b], order[a] })
		case 2:
			for a, b := 0, len(order)-1; a < b; a, b = a+1, b-1 {
				order[a], order[b] = order[b], order[a]
			}
		}
		unlock := []byte{0x00}
		if rng.Intn(8) == 0 {
			unlock = []byte{0x51} // non-null dummy
		}
		mixed := rng.Intn(3) == 0 // signatures of one multisig may use different hash types
		for j := 0; j < m; j++ {
			cl := "valid"
			if mode >= 3 && rng.Intn(2) == 0 {
				cl = classes[rng.Intn(len(classes))]
			}
			htj, scj := ht, scode
			if alternate {
				if j%2 == 1 {
					htj = ht ^ 0x80
				}
			} else if mixed {
				htj = (ht & 0x40) | stdHashTypes[rng.Intn(len(stdHashTypes))]
				if rng.Intn(2) == 0 {
					htj = ht ^ 0x80 // same base type, ANYONECANPAY flipped
				}
			}
			unlock = append(unlock, pushBytes(s.sign(cl, ks[order[j]], tx, idx, scj, amount, htj, isFork(fl, htj)))...)
		}
		emit("multi", "multisig", unlock, lock, fl, tx, idx, amount)
	}
	// every S length 1..32 on the byte-prefix boundary of half the group order (one up / one down), as a
	// well-formed signature by nobody, under LOW_S with the result consumed: false, never an error
	for n := 1; n <= 32; n++ {
		for variant := 0; variant < 2; variant++ {
			fl := scriptflag.VerifyLowS | scriptflag.VerifyDERSignatures
			ht := byte(0x01)
			if n%2 == 0 {
				fl |= scriptflag.EnableSighashForkID | scriptflag.UTXOAfterGenesis
				ht = 0x41
			}
			tx, idx, amount := randTx()
			k := s.keys[rng.Intn(len(s.keys))]
			lock := append(pushBytes(s.keyBytes(k, "comp")), 0xac, 0x91)
			s.forgedN, s.forgedVariant = n, variant
			sig := s.sign("forged", k, tx, idx, lock, amount, ht, isFork(fl, ht))
			s.forgedN = 0
			emit("p2pk", "p2pk-forged", pushBytes(sig), lock, fl, tx, idx, amount)
		}
	}
	return nil
}

// ---- C04: signatures made by the library's signing path, then single-field mutations ---------------

func cloneCaseTx(t *caseTx) *caseTx {
	c := &caseTx{Ver: t.Ver, Lt: t.Lt}
	c.Ins = append(c.Ins, t.Ins...)
	for _, o := range t.Outs {
		c.Outs = append(c.Outs, caseOut{Sats: o.Sats, Script: append([]int{}, o.Script...)})
	}
	return c
}

func commitScenarios(s *scen, rng *rand.Rand, n int, emit func(id, src string, unlock, lock []byte, fl scriptflag.Flag, tx *caseTx, idx int, amount uint64)) error {
	forkTypes := []byte{0x41, 0x42, 0x43, 0xc1, 0xc2, 0xc3}
	legacyTypes := []byte{0x01, 0x02, 0x03, 0x81, 0x82, 0x83}
	for it := 0; it < n; it++ {
		k := s.keys[rng.Intn(len(s.keys))]
		pub := k.priv.PubKey().SerialiseCompressed()
		fork := it%2 == 0
		ht := legacyTypes[rng.Intn(6)]
		fl := scriptflag.Flag(0)
		if fork {
			ht = forkTypes[rng.Intn(6)]
			fl = scriptflag.EnableSighashForkID | scriptflag.UTXOAfterGenesis
		}
		if rng.Intn(3) == 0 {
			fl |= scriptflag.VerifyNullFail | scriptflag.VerifyLowS | scriptflag.VerifyDERSignatures
		}
		// shape
		tx := &caseTx{Ver: []uint32{1, 2}[rng.Intn(2)], Lt: uint32(rng.Intn(4))}
		nin := 1 + rng.Intn(3)
		for i := 0; i < nin; i++ {
			tx.Ins = append(tx.Ins, caseIn{Tag: 0x30 + i, Vout: uint32(rng.Intn(3)), Seq: []uint32{0xffffffff, 0xfffffffe, 7}[rng.Intn(3)]})
		}
		for i, nout := 0, rng.Intn(4); i < nout; i++ {
			tx.Outs = append(tx.Outs, caseOut{Sats: uint64(1000 + rng.Intn(5000)), Script: ints(*p2pkhScript(byte(i + 1)))})
		}
		idx := rng.Intn(nin)
		amount := uint64(1 + rng.Intn(100000))
		var lock *bscript.Script
		lock, _ = bscript.NewP2PKHFromPubKeyBytes(pub)
		if rng.Intn(4) == 0 {
			lock = inscriptionScript(k.priv, rng.Intn(20))
			// optionally followed by an OP_RETURN section of 0, 1, 2, ... bytes (never executed, but part
			// of the script code every signature commits to)
			if tails := [][]byte{nil, {0x6a}, {0x6a, 0x00}, {0x6a, 0x51}, {0x6a, 0x01, 0x07}, {0x6a, 0x02, 0xaa, 0xbb}}; rng.Intn(2) == 0 {
				l2 := append(bscript.Script{}, *lock...)
				l2 = append(l2, tails[rng.Intn(len(tails))]...)
				lock = &l2
				fl |= scriptflag.UTXOAfterGenesis // before Genesis an executed OP_RETURN fails the script
			}
		}
		// sign through the library
		real := tx.build(idx, bscript.NewFromBytes([]byte{}))
		real.Inputs[idx].UnlockingScript = nil
		real.Inputs[idx].PreviousTxScript = lock
		real.Inputs[idx].PreviousTxSatoshis = amount
		// one scenario in four: the object has already been signed once, then the caller settles an amount (or the
		// lock time) in place and signs again - the second signature is the one that counts
		if rng.Intn(4) == 0 {
			_ = real.FillInput(context.Background(), &unlocker.Simple{PrivateKey: k.priv}, bt.UnlockerParams{InputIdx: uint32(idx), SigHashFlags: sighash.Flag(ht)})
			real.Inputs[idx].UnlockingScript = nil
			if len(tx.Outs) > 0 {
				j := rng.Intn(len(tx.Outs))
				tx.Outs[j].Sats += 7
				real.Outputs[j].Satoshis += 7
			} else {
				tx.Lt++
				real.LockTime++
			}
			if nin > 1 {
				o := (idx + 1) % nin
				tx.Ins[o].Seq ^= 2
				real.Inputs[o].SequenceNumber ^= 2
			}
		}
		// the transaction as built, to compare with after signing: signing may only fill in
		// unlocking scripts
		built := tx.build(idx, bscript.NewFromBytes([]byte{}))
		s.frameBroken = false
		if nin > 1 && rng.Intn(2) == 0 {
			// the other inputs are signed through the library too (same family of hash types), before or after
			for j := 0; j < nin; j++ {
				real.Inputs[j].PreviousTxScript = lock
				real.Inputs[j].PreviousTxSatoshis = amount
			}
			for j := 0; j < nin; j++ {
				if j == idx {
					continue
				}
				hj := legacyTypes[rng.Intn(6)]
				if fork {
					hj = forkTypes[rng.Intn(6)]
				}
				_ = real.FillInput(context.Background(), &unlocker.Simple{PrivateKey: k.priv}, bt.UnlockerParams{InputIdx: uint32(j), SigHashFlags: sighash.Flag(hj)})
			}
		}
		var err error
		if rng.Intn(2) == 0 && ht == 0x41 && nin == 1 {
			err = real.FillAllInputs(context.Background(), &unlocker.Getter{PrivateKey: k.priv})
		} else if rng.Intn(2) == 0 && ht == 0x41 {
			err = real.FillInput(context.Background(), &unlocker.Simple{PrivateKey: k.priv}, bt.UnlockerParams{InputIdx: uint32(idx)}) // default hash type
		} else {
			err = real.FillInput(context.Background(), &unlocker.Simple{PrivateKey: k.priv}, bt.UnlockerParams{InputIdx: uint32(idx), SigHashFlags: sighash.Flag(ht)})
		}
		if err != nil || real.Inputs[idx].UnlockingScript == nil {
			continue
		}
		unlock := []byte(*real.Inputs[idx].UnlockingScript)
		s.frameBroken = !sameButUnlocking(real, built)
		parts, perr := bscript.DecodeParts(unlock)
		if perr != nil || len(parts) != 2 {
			continue
		}
		sig := parts[0]
		// what the specification will be asked about: "key k signed this preimage"
		note := func(t *caseTx, i int, code []byte, amt uint64) {
			s.keyBytes(k, "comp")
			s.notes = append(s.notes, sigNote{Bytes: ints(sig), Signer: k.id, Pre: ints(myPreimage(tx, idx, []byte(*lock), amount, ht, fork)), Hs: hsOf(tx, idx, []byte(*lock), amount, ht, fork)})
		}
		note(tx, idx, *lock, amount)
		// half of the scenarios run on a transaction object that still carries the signing-time
		// value and script on the checked input (as one that was just signed does)
		s.carrySats, s.carryScript = nil, nil
		if it%2 == 1 || rng.Intn(2) == 0 {
			a0 := amount
			s.carrySats, s.carryScript = &a0, append([]byte{}, *lock...)
		}
		emit("base", "commit-base", unlock, *lock, fl, tx, idx, amount)
		// mutations
		type mut struct {
			name string
			f    func(t *caseTx, i *int, amt *uint64, lk *[]byte) bool
		}
		other := func(t *caseTx, i int) int {
			if len(t.Ins) < 2 {
				return -1
			}
			return (i + 1) % len(t.Ins)
		}
		muts := []mut{
			{"version", func(t *caseTx, i *int, a *uint64, l *[]byte) bool { t.Ver++; return true }},
			{"locktime", func(t *caseTx, i *int, a *uint64, l *[]byte) bool { t.Lt++; return true }},
			{"own-outpoint", func(t *caseTx, i *int, a *uint64, l *[]byte) bool { t.Ins[*i].Vout++; return true }},
			{"other-outpoint", func(t *caseTx, i *int, a *uint64, l *[]byte) bool {
				o := other(t, *i)
				if o < 0 {
					return false
				}
				t.Ins[o].Vout++
				return true
			}},
			{"own-sequence", func(t *caseTx, i *int, a *uint64, l *[]byte) bool { t.Ins[*i].Seq ^= 1; return true }},
			{"other-sequence", func(t *caseTx, i *int, a *uint64, l *[]byte) bool {
				o := other(t, *i)
				if o < 0 {
					return false
				}
				t.Ins[o].Seq ^= 1
				return true
			}},
			{"output-value-same-index", func(t *caseTx, i *int, a *uint64, l *[]byte) bool {
				if *i >= len(t.Outs) {
					return false
				}
				t.Outs[*i].Sats++
				return true
			}},
			{"output-script-same-index", func(t *caseTx, i *int, a *uint64, l *[]byte) bool {
				if *i >= len(t.Outs) {
					return false
				}
				t.Outs[*i].Script[5] ^= 1
				return true
			}},
			{"output-value-other-index", func(t *caseTx, i *int, a *uint64, l *[]byte) bool {
				for k := range t.Outs {
					if k != *i {
						t.Outs[k].Sats++
						return true
					}
				}
				return false
			}},
			{"output-append", func(t *caseTx, i *int, a *uint64, l *[]byte) bool {
				t.Outs = append(t.Outs, caseOut{Sats: 9, Script: ints(*p2pkhScript(0x99))})
				return true
			}},
			{"output-remove-last", func(t *caseTx, i *int, a *uint64, l *[]byte) bool {
				if len(t.Outs) == 0 {
					return false
				}
				t.Outs = t.Outs[:len(t.Outs)-1]
				return true
			}},
			{"input-append", func(t *caseTx, i *int, a *uint64, l *[]byte) bool {
				t.Ins = append(t.Ins, caseIn{Tag: 0x77, Vout: 1, Seq: 0xffffffff})
				return true
			}},
			{"input-insert-before", func(t *caseTx, i *int, a *uint64, l *[]byte) bool {
				t.Ins = append([]caseIn{{Tag: 0x78, Vout: 2, Seq: 0xffffffff}}, t.Ins...)
				*i++
				return true
			}},
			{"input-remove-other", func(t *caseTx, i *int, a *uint64, l *[]byte) bool {
				o := other(t, *i)
				if o < 0 {
					return false
				}
				t.Ins = append(t.Ins[:o:o], t.Ins[o+1:]...)
				if o < *i {
					*i--
				}
				return true
			}},
			{"spent-value", func(t *caseTx, i *int, a *uint64, l *[]byte) bool { *a++; return true }},
			{"spent-script", func(t *caseTx, i *int, a *uint64, l *[]byte) bool {
				*l = append(append([]byte{}, *l...), 0x61)
				return true
			}},
		}
		for _, m := range muts {
			if rng.Intn(3) != 0 && n > 50 {
				continue
			}
			t2, i2, a2, l2 := cloneCaseTx(tx), idx, amount, append([]byte{}, *lock...)
			if !m.f(t2, &i2, &a2, &l2) {
				continue
			}
			note(tx, idx, *lock, amount)
			emit("mut", "commit-"+m.name, unlock, l2, fl, t2, i2, a2)
		}
	}
	return nil
}

// sameButUnlocking: a and b agree on everything a signature can commit to except unlocking scripts.
func sameButUnlocking(a, b *bt.Tx) bool {
	if a.Version != b.Version || a.LockTime != b.LockTime || len(a.Inputs) != len(b.Inputs) || len(a.Outputs) != len(b.Outputs) {
		return false
	}
	for i := range a.Inputs {
		x, y := a.Inputs[i], b.Inputs[i]
		if !bytes.Equal(x.PreviousTxID(), y.PreviousTxID()) || x.PreviousTxOutIndex != y.PreviousTxOutIndex || x.SequenceNumber != y.SequenceNumber {
			return false
		}
	}
	for i := range a.Outputs {
		x, y := a.Outputs[i], b.Outputs[i]
		if x.Satoshis != y.Satoshis || !bytes.Equal(*x.LockingScript, *y.LockingScript) {
			return false
		}
	}
	return true
}
