package main

import (
	"bytes"
	"encoding/binary"
	"encoding/hex"
	"encoding/json"
	"flag"
	"fmt"
	"io"
	"math/big"
	"math/rand"
	"os"
	"path/filepath"
	"runtime"
	"strings"

	"github.com/libsv/go-bt/v2"
	"github.com/libsv/go-bt/v2/bscript"
)

func init() { register("txwire", txwire) }

// ---- projection of a real transaction onto the specification's record -------------------

func le32(v uint32) []int { b := make([]byte, 4); binary.LittleEndian.PutUint32(b, v); return ints(b) }
func le64(v uint64) []int { b := make([]byte, 8); binary.LittleEndian.PutUint64(b, v); return ints(b) }

func scriptInts(s *bscript.Script) []int {
	if s == nil {
		return []int{}
	}
	return ints(*s)
}

func projTx(tx *bt.Tx) Ev {
	ins := make([]Ev, 0, len(tx.Inputs))
	for _, in := range tx.Inputs {
		ins = append(ins, Ev{
			"txid": ints(bt.ReverseBytes(in.PreviousTxID())),
			"vout": le32(in.PreviousTxOutIndex),
			"us":   scriptInts(in.UnlockingScript),
			"seq":  le32(in.SequenceNumber),
			"sats": le64(in.PreviousTxSatoshis),
			"ps":   scriptInts(in.PreviousTxScript),
		})
	}
	outs := make([]Ev, 0, len(tx.Outputs))
	for _, o := range tx.Outputs {
		outs = append(outs, Ev{"sats": le64(o.Satoshis), "ls": scriptInts(o.LockingScript)})
	}
	return Ev{"ver": le32(tx.Version), "ins": ins, "outs": outs, "lt": le32(tx.LockTime)}
}

// txFromSpec builds a real transaction from the specification's record (TLC-generated cases).
func txFromSpec(m map[string]interface{}) *bt.Tx {
	tx := &bt.Tx{Version: binary.LittleEndian.Uint32(unints(m["ver"])), LockTime: binary.LittleEndian.Uint32(unints(m["lt"]))}
	for _, x := range m["ins"].([]interface{}) {
		im := x.(map[string]interface{})
		in := &bt.Input{
			PreviousTxOutIndex: binary.LittleEndian.Uint32(unints(im["vout"])),
			SequenceNumber:     binary.LittleEndian.Uint32(unints(im["seq"])),
			PreviousTxSatoshis: binary.LittleEndian.Uint64(unints(im["sats"])),
			UnlockingScript:    scriptObj(unints(im["us"]), len(tx.Inputs)),
			PreviousTxScript:   scriptObj(unints(im["ps"]), len(tx.Inputs)+1),
		}
		_ = in.PreviousTxIDAdd(bt.ReverseBytes(unints(im["txid"])))
		tx.Inputs = append(tx.Inputs, in)
	}
	for _, x := range m["outs"].([]interface{}) {
		om := x.(map[string]interface{})
		tx.Outputs = append(tx.Outputs, &bt.Output{Satoshis: binary.LittleEndian.Uint64(unints(om["sats"])), LockingScript: bscript.NewFromBytes(unints(om["ls"]))})
	}
	return tx
}

// scriptObj wraps bytes as a *bscript.Script; an empty script is, depending on its position, an empty
// non-nil slice or a nil slice (new(bscript.Script), NewFromBytes(nil)): both are "the empty script".
func scriptObj(b []byte, k int) *bscript.Script {
	if len(b) == 0 && k%2 == 1 {
		return bscript.NewFromBytes(nil)
	}
	return bscript.NewFromBytes(b)
}

// txView records everything C01 says about one decoded / built transaction.
func txView(tx *bt.Tx) (v Ev) {
	v = Ev{"tx": projTx(tx)}
	std := tx.Bytes()
	v["std"] = ints(std)
	v["extb"] = ints(tx.ExtendedBytes())
	v["txid"] = ints(tx.TxIDBytes())
	v["idstr"] = tx.TxID()
	// Clone calls log.Fatal when the tx does not re-parse; every tx reaching here re-parses
	// unless its txid is not 32 bytes, which the driver never builds.
	if len(tx.Inputs) == 0 && len(tx.Outputs) == 0 && tx.LockTime == 0xef000000 {
		// the one shape C01 excludes (its standard form reads as the extended marker); Clone
		// re-parses the standard form and would take the process down
		v["clonestd"], v["cloneext"] = true, true
		return v
	}
	if _, err := bt.NewTxFromBytes(std); err != nil {
		// Clone re-parses Bytes() and calls log.Fatal on failure: observe the failure instead
		v["clonestd"], v["cloneext"], v["cloneerr"] = false, false, err.Error()
		return v
	}
	c := tx.Clone()
	v["clonestd"] = bytes.Equal(c.Bytes(), std)
	v["cloneext"] = bytes.Equal(c.ExtendedBytes(), tx.ExtendedBytes())
	return v
}

// ---- the calls ---------------------------------------------------------------------------

// wrapClaim returns ceil(j*2^64/k)+t for an item size k in 2..100, 0 < j < k, t in {0, 1}:
// k*claim overflows 64 bits and lands on a value below 2k.
var wrapCounter int

func wrapClaim(rng *rand.Rand) uint64 {
	// the item size k runs through 2..100 in turn, so that every size is probed whatever the seed
	wrapCounter++
	k := uint64(2 + wrapCounter%99)
	j := uint64(1 + rng.Intn(int(k-1)))
	two64 := new(big.Int).Lsh(big.NewInt(1), 64)
	q := new(big.Int).Mul(two64, new(big.Int).SetUint64(j))
	q.Add(q, new(big.Int).SetUint64(k-1))
	q.Div(q, new(big.Int).SetUint64(k))
	return q.Uint64() + uint64(rng.Intn(2))
}

// plainReader hides every method of the underlying reader except Read.
type plainReader struct{ r io.Reader }

func (p plainReader) Read(b []byte) (int, error) { return p.r.Read(b) }

type oneByteReader struct{ r io.Reader }

func (o oneByteReader) Read(p []byte) (int, error) {
	if len(p) == 0 {
		return 0, nil
	}
	return o.r.Read(p[:1])
}

type wcase struct {
	kind string // "parse" | "ser"
	api  string
	in   []byte
	tx   *bt.Tx
	src  string
	in2  []byte // bytes-retained: the transaction parsed in between
}

func capInt(v uint64) int {
	if v > 2147483000 {
		return 2147483000
	}
	return int(v)
}

func doParse(c wcase) Ev {
	e := Ev{"ev": "parse", "api": c.api, "src": c.src, "in": ints(c.in), "ok": false, "used": 0, "txs": []Ev{}, "outcome": "err", "alloc": 0}
	var txs []*bt.Tx
	var used int64
	var err error
	var item Ev
	var ms0, ms1 runtime.MemStats
	runtime.ReadMemStats(&ms0)
	p, msg := guard(func() {
		switch c.api {
		case "bytes":
			var tx *bt.Tx
			tx, err = bt.NewTxFromBytes(c.in)
			if err == nil {
				txs, used = []*bt.Tx{tx}, int64(len(c.in))
			}
		case "bytes-retained":
			// the result of one parse is looked at only after another, different, transaction has been parsed:
			// a decoded transaction owns its bytes
			var tx *bt.Tx
			tx, err = bt.NewTxFromBytes(c.in)
			if err == nil {
				_, _ = bt.NewTxFromBytes(c.in2)
				txs, used = []*bt.Tx{tx}, int64(len(c.in))
			}
		case "stream":
			var tx *bt.Tx
			var n int
			tx, n, err = bt.NewTxFromStream(c.in)
			used = int64(n)
			if err == nil {
				txs = []*bt.Tx{tx}
			}
		case "reader":
			tx := &bt.Tx{}
			used, err = tx.ReadFrom(bytes.NewReader(c.in))
			if err == nil {
				txs = []*bt.Tx{tx}
			}
		case "reader1":
			tx := &bt.Tx{}
			used, err = tx.ReadFrom(oneByteReader{bytes.NewReader(c.in)})
			if err == nil {
				txs = []*bt.Tx{tx}
			}
		case "readerp":
			// a plain io.Reader (no ReadByte, no Len): a file, a socket, a pipe
			src := bytes.NewReader(c.in)
			tx := &bt.Tx{}
			used, err = tx.ReadFrom(plainReader{src})
			e["left"] = src.Len()
			if err == nil {
				txs = []*bt.Tx{tx}
			}
		case "list":
			var tt bt.Txs
			used, err = tt.ReadFrom(bytes.NewReader(c.in))
			if err == nil {
				txs = tt
			}
		case "listp":
			src := bytes.NewReader(c.in)
			var tt bt.Txs
			used, err = tt.ReadFrom(plainReader{src})
			e["left"] = src.Len()
			if err == nil {
				txs = tt
			}
		case "input", "inputext":
			in := &bt.Input{}
			if c.api == "input" {
				used, err = in.ReadFrom(bytes.NewReader(c.in))
			} else {
				used, err = in.ReadFromExtended(bytes.NewReader(c.in))
			}
			if err == nil {
				item = Ev{"txid": ints(bt.ReverseBytes(in.PreviousTxID())), "vout": le32(in.PreviousTxOutIndex), "us": scriptInts(in.UnlockingScript),
					"seq": le32(in.SequenceNumber), "sats": le64(in.PreviousTxSatoshis), "ps": scriptInts(in.PreviousTxScript)}
			}
		case "output":
			o := &bt.Output{}
			used, err = o.ReadFrom(bytes.NewReader(c.in))
			if err == nil {
				item = Ev{"sats": le64(o.Satoshis), "ls": scriptInts(o.LockingScript)}
			}
		case "jsondoc-tx", "jsondoc-input", "jsondoc-utxo", "jsondoc-nodeutxo", "jsondoc-output":
			// a JSON document given to a field-wise JSON decoder: only totality is judged (value or error)
			switch c.api {
			case "jsondoc-tx":
				err = json.Unmarshal(c.in, &bt.Tx{})
			case "jsondoc-input":
				err = json.Unmarshal(c.in, &bt.Input{})
			case "jsondoc-output":
				err = json.Unmarshal(c.in, &bt.Output{})
			case "jsondoc-utxo":
				err = json.Unmarshal(c.in, &bt.UTXO{})
			case "jsondoc-nodeutxo":
				err = json.Unmarshal(c.in, (&bt.UTXO{}).NodeJSON())
			}
			used = int64(len(c.in))
		case "json", "jsonnode", "jsonhex", "jsonnodehex":
			// the JSON decoders delegate to hex decoding + the binary decoder
			tx := &bt.Tx{}
			var doc []byte
			if strings.HasSuffix(c.api, "hex") {
				doc, _ = json.Marshal(map[string]string{"hex": hex.EncodeToString(c.in)})
			} else {
				doc, _ = json.Marshal(hex.EncodeToString(c.in))
				doc = []byte(`{"hex":` + string(doc) + `,"txid":"00"}`)
			}
			if strings.HasPrefix(c.api, "jsonnode") {
				err = json.Unmarshal(doc, tx.NodeJSON())
			} else {
				err = json.Unmarshal(doc, tx)
			}
			if err == nil {
				txs, used = []*bt.Tx{tx}, int64(len(c.in))
			}
		}
	})
	runtime.ReadMemStats(&ms1)
	e["alloc"] = capInt(ms1.TotalAlloc - ms0.TotalAlloc)
	if used < 0 {
		used = 0
	}
	e["used"] = capInt(uint64(used))
	switch {
	case p:
		e["outcome"], e["panic"] = "panic", msg
	case err != nil:
		e["outcome"], e["err"] = "err", err.Error()
	default:
		e["outcome"], e["ok"] = "ok", true
		vs := make([]Ev, 0, len(txs))
		for _, tx := range txs {
			vs = append(vs, txView(tx))
		}
		e["txs"] = vs
		if item != nil {
			e["item"] = item
		}
	}
	return e
}

func doSer(c wcase) Ev {
	e := txView(c.tx)
	e["ev"], e["src"] = "ser", c.src
	return e
}

// ---- input generation (diverse, not authoritative: the judge is the specification) -------

func vint(n uint64, width int) []byte {
	switch width {
	case 1:
		return []byte{byte(n)}
	case 3:
		b := []byte{0xfd, 0, 0}
		binary.LittleEndian.PutUint16(b[1:], uint16(n))
		return b
	case 5:
		b := []byte{0xfe, 0, 0, 0, 0}
		binary.LittleEndian.PutUint32(b[1:], uint32(n))
		return b
	}
	b := make([]byte, 9)
	b[0] = 0xff
	binary.LittleEndian.PutUint64(b[1:], n)
	return b
}

func minWidth(n uint64) int {
	switch {
	case n < 253:
		return 1
	case n < 65536:
		return 3
	case n < 1<<32:
		return 5
	}
	return 9
}

type genTx struct {
	tx      *bt.Tx
	raw     []byte // serialisation written by the generator (possibly with non-minimal varints)
	ext     bool
	bounds  []int // offsets of field boundaries in raw
	lenOffs []int // offsets of length/count varints in raw
}

var boundaryLens = []int{0, 1, 2, 25, 75, 76, 107, 252, 253, 254, 255, 256}
var bigLens = []int{65535, 65536, 70000}

func randBytes(rng *rand.Rand, n int) []byte {
	b := make([]byte, n)
	if rng.Intn(4) == 0 {
		for i := range b {
			b[i] = byte(rng.Intn(3)) * 0xef
		}
		return b
	}
	rng.Read(b)
	return b
}

func pickLen(rng *rand.Rand, allowBig bool) int {
	if allowBig && rng.Intn(150) == 0 {
		return bigLens[rng.Intn(len(bigLens))]
	}
	if rng.Intn(3) == 0 {
		return rng.Intn(60)
	}
	return boundaryLens[rng.Intn(len(boundaryLens))]
}

func edge32(rng *rand.Rand) uint32 {
	switch rng.Intn(6) {
	case 0:
		return 0
	case 1:
		return 0xffffffff
	case 2:
		return 0xef000000
	case 3:
		return 0xef
	case 4:
		return 1
	}
	return rng.Uint32()
}

func edge64(rng *rand.Rand) uint64 {
	switch rng.Intn(6) {
	case 0:
		return 0
	case 1:
		return ^uint64(0)
	case 2:
		return 1 << 63
	case 3:
		return 2100000000000000
	case 4:
		return uint64(rng.Intn(100000))
	}
	return rng.Uint64()
}

// gen builds a random transaction through the public types and, independently, a wire image
// whose varints use the widths chosen by `nonMinimal`.
func gen(rng *rand.Rand, ext bool, nonMinimal bool, allowBig bool) genTx {
	g := genTx{ext: ext}
	nin := rng.Intn(4)
	nout := rng.Intn(4)
	switch rng.Intn(60) {
	case 0:
		nout = 252 + rng.Intn(3)
	case 1:
		nin = 252 + rng.Intn(3)
	}
	tx := &bt.Tx{Version: edge32(rng), LockTime: edge32(rng)}
	var raw []byte
	mark := func() { g.bounds = append(g.bounds, len(raw)) }
	w := func(n uint64) []byte {
		g.lenOffs = append(g.lenOffs, len(raw))
		mw := minWidth(n)
		if nonMinimal && rng.Intn(2) == 0 {
			ws := []int{1, 3, 5, 9}
			for {
				x := ws[rng.Intn(4)]
				if x >= mw {
					return vint(n, x)
				}
			}
		}
		return vint(n, mw)
	}
	b4 := func(v uint32) []byte { b := make([]byte, 4); binary.LittleEndian.PutUint32(b, v); return b }
	b8 := func(v uint64) []byte { b := make([]byte, 8); binary.LittleEndian.PutUint64(b, v); return b }
	raw = append(raw, b4(tx.Version)...)
	mark()
	if ext {
		raw = append(raw, 0, 0, 0, 0, 0, 0xef)
		mark()
	}
	raw = append(raw, w(uint64(nin))...)
	mark()
	small := nin > 10 || nout > 10
	for i := 0; i < nin; i++ {
		txid := randBytes(rng, 32)
		in := &bt.Input{PreviousTxOutIndex: edge32(rng), SequenceNumber: edge32(rng)}
		_ = in.PreviousTxIDAdd(txid)
		ul := pickLen(rng, allowBig && !small)
		if small {
			ul = rng.Intn(3)
		}
		us := randBytes(rng, ul)
		switch rng.Intn(5) {
		case 0:
			if ul == 0 {
				in.UnlockingScript = nil
			} else {
				in.UnlockingScript = bscript.NewFromBytes(us)
			}
		default:
			in.UnlockingScript = bscript.NewFromBytes(us)
		}
		raw = append(raw, bt.ReverseBytes(txid)...)
		raw = append(raw, b4(in.PreviousTxOutIndex)...)
		mark()
		raw = append(raw, w(uint64(ul))...)
		mark()
		raw = append(raw, us...)
		mark()
		raw = append(raw, b4(in.SequenceNumber)...)
		mark()
		if ext {
			in.PreviousTxSatoshis = edge64(rng)
			pl := pickLen(rng, allowBig && !small)
			if small {
				pl = rng.Intn(3)
			}
			ps := randBytes(rng, pl)
			if pl == 0 && rng.Intn(2) == 0 {
				in.PreviousTxScript = nil
			} else {
				in.PreviousTxScript = bscript.NewFromBytes(ps)
			}
			raw = append(raw, b8(in.PreviousTxSatoshis)...)
			mark()
			raw = append(raw, w(uint64(pl))...)
			mark()
			raw = append(raw, ps...)
			mark()
		}
		tx.Inputs = append(tx.Inputs, in)
	}
	raw = append(raw, w(uint64(nout))...)
	mark()
	for i := 0; i < nout; i++ {
		ll := pickLen(rng, allowBig && !small)
		if small {
			ll = rng.Intn(3)
		}
		ls := randBytes(rng, ll)
		o := &bt.Output{Satoshis: edge64(rng), LockingScript: bscript.NewFromBytes(ls)}
		raw = append(raw, b8(o.Satoshis)...)
		mark()
		raw = append(raw, w(uint64(ll))...)
		mark()
		raw = append(raw, ls...)
		mark()
		tx.Outputs = append(tx.Outputs, o)
	}
	raw = append(raw, b4(tx.LockTime)...)
	g.tx, g.raw = tx, raw
	return g
}

var hugeClaims = []uint64{1 << 16, 1 << 20, 1<<31 - 1, 1 << 31, 1 << 32, 1 << 40, 1 << 62, 1 << 63, ^uint64(0)}

func loadCorpus(repo string) [][]byte {
	var out [][]byte
	add := func(h string) {
		if b, err := hex.DecodeString(h); err == nil && len(b) >= 10 {
			out = append(out, b)
		}
	}
	for _, name := range []string{"sighash_bip143.json", "sighash_legacy.json"} {
		var rows [][]interface{}
		b, err := os.ReadFile(filepath.Join(repo, "bscript/interpreter/data", name))
		if err != nil || json.Unmarshal(b, &rows) != nil {
			continue
		}
		for _, r := range rows {
			if len(r) == 5 {
				add(r[0].(string))
			}
		}
	}
	for _, name := range []string{"tx_valid.json", "tx_invalid.json"} {
		var rows [][]interface{}
		b, err := os.ReadFile(filepath.Join(repo, "bscript/interpreter/data", name))
		if err != nil || json.Unmarshal(b, &rows) != nil {
			continue
		}
		for _, r := range rows {
			if len(r) == 3 {
				if s, ok := r[1].(string); ok {
					add(s)
				}
			}
		}
	}
	return out
}

func txwire(args []string) error {
	fs := flag.NewFlagSet("txwire", flag.ExitOnError)
	out := fs.String("out", "txwire.ndjson", "trace file")
	casesPath := fs.String("cases", "", "TLC-generated cases (ndjson): buf / tx+ext")
	n := fs.Int("n", 300, "random transactions")
	ncorpus := fs.Int("corpus", 60, "corpus transactions (node vectors) to decode")
	crafted := fs.Int("crafted", 40, "transactions given crafted huge length fields")
	repo := fs.String("repo", "/repo", "repository root (test vectors)")
	start := fs.Int("start", 0, "skip the first k calls (restart after a crash)")
	only := fs.Bool("only", false, "run only the cases file")
	block := fs.Bool("block", false, "include the repository's block file as a counted list")
	fs.Parse(args)
	rng := newRand(1)
	var cases []wcase
	parseAll := func(src string, b []byte, apis ...string) {
		if len(apis) == 0 {
			apis = []string{"bytes", "stream", "reader", "reader1", "readerp"}
		}
		for _, a := range apis {
			if strings.HasPrefix(a, "json") && len(b) == 0 {
				continue
			}
			cases = append(cases, wcase{kind: "parse", api: a, in: b, src: src})
		}
	}
	if *casesPath != "" {
		cs, err := readNDJSON(*casesPath)
		if err != nil {
			return err
		}
		for _, c := range cs {
			if c["tx"] != nil {
				cases = append(cases, wcase{kind: "ser", tx: txFromSpec(c["tx"].(map[string]interface{})), src: "tlc"})
			}
			if c["buf"] != nil {
				b := unints(c["buf"])
				if a, ok := c["api"].(string); ok {
					parseAll("tlc", b, a)
				} else {
					parseAll("tlc", b)
					parseAll("tlc", append([]byte{1}, b...), "list")
				}
			}
		}
	}
	if !*only {
		// built through the API, serialised both ways, each image decoded by every entry point
		for i := 0; i < *n; i++ {
			ext := i%2 == 1
			g := gen(rng, ext, false, true)
			cases = append(cases, wcase{kind: "ser", tx: g.tx, src: "gen"})
			parseAll("gen", g.raw)
			if i%4 == 0 {
				parseAll("gen-json", g.raw, "json", "jsonnode", "jsonhex", "jsonnodehex")
			}
			// non-minimal length prefixes
			gm := gen(rng, ext, true, false)
			parseAll("gen-nonminimal", gm.raw, "bytes", "stream", "reader1")
			// streams: tx followed by another tx / junk; counted lists
			g2 := gen(rng, rng.Intn(2) == 0, false, false)
			parseAll("gen-stream", append(append([]byte{}, g.raw...), g2.raw...), "stream", "reader", "bytes", "readerp")
			if len(g.raw) < 5000 {
				lst := append(vint(2, minWidth(2)), append(append([]byte{}, g.raw...), g2.raw...)...)
				parseAll("gen-list", lst, "list", "listp")
				parseAll("gen-list", append(append([]byte{}, lst...), g.raw...), "list", "listp") // data follows the list
				parseAll("gen-list", append(vint(3, 1), lst[1:]...), "list")                      // claims one more than present
				parseAll("gen-list", append(vint(1, 1), lst[1:]...), "list")                      // stops at count
			}
			// truncations at field boundaries +-1
			if i%6 == 0 && len(g.raw) < 1500 {
				for _, b := range g.bounds {
					for _, d := range []int{-1, 0, 1} {
						if k := b + d; k >= 0 && k < len(g.raw) {
							parseAll("gen-trunc", g.raw[:k], "stream", "bytes")
						}
					}
				}
			}
			// bit flips
			if i%3 == 1 && len(g.raw) < 3000 {
				for k := 0; k < 12; k++ {
					m := append([]byte{}, g.raw...)
					m[rng.Intn(len(m))] ^= 1 << uint(rng.Intn(8))
					parseAll("gen-flip", m, "bytes", "reader")
				}
			}
			// input / output decoders on their own
			if i%5 == 0 {
				gi := gen(rng, ext, false, false)
				if len(gi.tx.Inputs) > 0 && len(gi.tx.Inputs) < 10 {
					ib := gi.tx.Inputs[0].Bytes(false)
					api := "input"
					if ext {
						api = "inputext"
						ib = append(ib, le64b(gi.tx.Inputs[0].PreviousTxSatoshis)...)
						ps := []byte{}
						if gi.tx.Inputs[0].PreviousTxScript != nil {
							ps = *gi.tx.Inputs[0].PreviousTxScript
						}
						ib = append(ib, vint(uint64(len(ps)), minWidth(uint64(len(ps))))...)
						ib = append(ib, ps...)
					}
					parseAll("gen-item", ib, api)
					parseAll("gen-item", append(ib, 7, 7), api)
					if len(ib) > 3 {
						parseAll("gen-item", ib[:len(ib)-1], api)
						parseAll("gen-item", ib[:rng.Intn(len(ib))], api)
					}
				}
				if len(gi.tx.Outputs) > 0 && len(gi.tx.Outputs) < 10 {
					ob := gi.tx.Outputs[0].Bytes()
					parseAll("gen-item", ob, "output")
					parseAll("gen-item", append(ob, 1), "output")
					parseAll("gen-item", ob[:len(ob)-1], "output")
				}
			}
		}
		// two different transactions with fields above 64 KiB, the first inspected after the second was parsed
		bigTx := func(lo, lu, lp int, ext bool) []byte {
			t := &bt.Tx{Version: 1}
			in := &bt.Input{PreviousTxOutIndex: 1, SequenceNumber: 5, UnlockingScript: bscript.NewFromBytes(randBytes(rng, lu)),
				PreviousTxScript: bscript.NewFromBytes(randBytes(rng, lp)), PreviousTxSatoshis: 9}
			_ = in.PreviousTxIDAdd(randBytes(rng, 32))
			t.Inputs = []*bt.Input{in}
			t.AddOutput(&bt.Output{Satoshis: 3, LockingScript: bscript.NewFromBytes(randBytes(rng, lo))})
			if ext {
				return t.ExtendedBytes()
			}
			return t.Bytes()
		}
		for _, sh := range [][7]int{{70000, 3, 0, 0, 66000, 3, 0}, {3, 70000, 0, 0, 66000, 3, 0}, {3, 3, 70000, 1, 3, 3, 69000}, {70000, 70001, 0, 0, 65537, 65538, 0}, {200, 3, 0, 0, 66000, 3, 0}} {
			a := bigTx(sh[0], sh[1], sh[2], sh[3] == 1)
			b := bigTx(sh[4], sh[5], sh[6], sh[3] == 1)
			cases = append(cases, wcase{kind: "parse", api: "bytes-retained", in: a, in2: b, src: "gen-retained"})
		}
		// crafted: a valid prefix up to each length/count field, then a varint claiming a huge value
		for i := 0; i < *crafted; i++ {
			g := gen(rng, i%2 == 1, false, false)
			if len(g.raw) > 2000 {
				continue
			}
			for _, off := range g.lenOffs {
				claim := hugeClaims[rng.Intn(len(hugeClaims))]
				m := append(append([]byte{}, g.raw[:off]...), vint(claim, minWidth(claim))...)
				m = append(m, randBytes(rng, rng.Intn(4))...)
				parseAll("crafted", m, "bytes", "reader")
				if i%4 == 0 {
					parseAll("crafted", m, "jsonhex", "jsonnodehex")
				}
			}
			// counts chosen so that count * (a plausible per-item size k) wraps around 2^64 to a
			// small value: the classic way past a "count*size <= remaining" plausibility guard
			for _, off := range g.lenOffs {
				for rep := 0; rep < 3; rep++ {
					c := wrapClaim(rng)
					m := append(append([]byte{}, g.raw[:off]...), vint(c, 9)...)
					m = append(m, make([]byte, []int{0, 48, 200}[rep])...)
					parseAll("crafted-wrap", m, "bytes", "reader")
				}
			}
			claim := hugeClaims[i%len(hugeClaims)]
			parseAll("crafted", append(vint(claim, minWidth(claim)), g.raw...), "list")
			parseAll("crafted-wrap", append(append(vint(wrapClaim(rng), 9), g.raw...), make([]byte, 64)...), "list")
			if len(g.tx.Inputs) > 0 {
				ib := g.tx.Inputs[0].Bytes(false)
				parseAll("crafted", append(append([]byte{}, ib[:36]...), vint(claim, minWidth(claim))...), "input", "inputext")
			}
			parseAll("crafted", append(make([]byte, 8), vint(claim, minWidth(claim))...), "output")
		}
		// random bytes
		for i := 0; i < *n; i++ {
			parseAll("random", randBytes(rng, rng.Intn(80)), "bytes", "reader", "list", "input", "output")
		}
		// field-wise JSON documents whose hex fields have every interesting length (txid: 0, 31, 32, 33, 34, 64, 100
		// bytes; odd-length and non-hex strings; scripts empty / long)
		hexOf := func(l int) string { return hex.EncodeToString(randBytes(rng, l)) }
		var ids []string
		for _, l := range []int{0, 1, 31, 32, 33, 34, 64, 100, 1000} {
			ids = append(ids, hexOf(l))
		}
		ids = append(ids, "0", hexOf(32)+"0", "zz", hexOf(16)+"g"+hexOf(16))
		for _, id := range ids {
			for _, sc := range []string{"", "51", hexOf(300), "5"} {
				in := fmt.Sprintf(`{"unlockingScript":"%s","txid":"%s","vout":1,"sequence":4294967295}`, sc, id)
				parseAll("jsondoc", []byte(in), "jsondoc-input")
				parseAll("jsondoc", []byte(`{"version":1,"locktime":0,"inputs":[`+in+`],"outputs":[{"satoshis":1,"lockingScript":"`+sc+`"}]}`), "jsondoc-tx")
				parseAll("jsondoc", []byte(fmt.Sprintf(`{"txid":"%s","vout":0,"lockingScript":"%s","satoshis":5}`, id, sc)), "jsondoc-utxo")
				parseAll("jsondoc", []byte(fmt.Sprintf(`{"txid":"%s","vout":0,"scriptPubKey":"%s","amount":0.5}`, id, sc)), "jsondoc-nodeutxo")
			}
		}
		for _, doc := range []string{`{}`, `[]`, `null`, `{"satoshis":-1}`, `{"satoshis":1,"lockingScript":null}`, `{"inputs":null,"outputs":null}`, `{"inputs":[null]}`, `{"outputs":[null]}`} {
			parseAll("jsondoc", []byte(doc), "jsondoc-tx", "jsondoc-input", "jsondoc-output", "jsondoc-utxo", "jsondoc-nodeutxo")
		}
		// corpus
		corpus := loadCorpus(*repo)
		rng.Shuffle(len(corpus), func(i, j int) { corpus[i], corpus[j] = corpus[j], corpus[i] })
		for i := 0; i < len(corpus) && i < *ncorpus; i++ {
			parseAll("corpus", corpus[i])
		}
		if *block {
			if b, err := os.ReadFile(filepath.Join(*repo, "testing/data/tx/bin/block.bin")); err == nil && len(b) > 80 {
				parseAll("block", b[80:], "list")
			}
		}
	}
	mode := os.O_CREATE | os.O_WRONLY | os.O_TRUNC
	if *start > 0 {
		mode = os.O_CREATE | os.O_WRONLY | os.O_APPEND
	}
	f, err := os.OpenFile(*out, mode, 0o644)
	if err != nil {
		return err
	}
	defer f.Close()
	// intent file: index of the call in flight (a crash leaves it behind)
	intent := *out + ".intent"
	for i := *start; i < len(cases); i++ {
		c := cases[i]
		os.WriteFile(intent, []byte(fmt.Sprintf("%d %s %s %s", i, c.kind, c.api, hex.EncodeToString(c.in))), 0o644)
		var e Ev
		if c.kind == "ser" {
			e = doSer(c)
		} else {
			e = doParse(c)
		}
		e["case"] = i
		b, _ := json.Marshal(e)
		f.Write(append(b, '\n'))
	}
	os.Remove(intent)
	return nil
}

func le64b(v uint64) []byte { b := make([]byte, 8); binary.LittleEndian.PutUint64(b, v); return b }
