package main

import (
	"bytes"
	"context"
	"encoding/json"
	"flag"

	"github.com/libsv/go-bk/bec"
	"github.com/libsv/go-bt/v2"
	"github.com/libsv/go-bt/v2/bscript"
	"github.com/libsv/go-bt/v2/unlocker"
)

func init() { register("jsonx", jsonCmd) }

// what C16 says survives a JSON round trip of a transaction
func projJSONTx(tx *bt.Tx) Ev {
	p := projTx(tx)
	for _, in := range p["ins"].([]Ev) {
		delete(in, "sats")
		delete(in, "ps")
	}
	return Ev{"tx": p, "std": ints(tx.Bytes()), "txid": tx.TxID()}
}

func projOut(o *bt.Output) Ev { return Ev{"sats": le64(o.Satoshis), "ls": scriptInts(o.LockingScript)} }
func projUTXO(u *bt.UTXO) Ev {
	return Ev{"txid": ints(u.TxID), "vout": int(u.Vout), "sats": le64(u.Satoshis), "ls": scriptInts(u.LockingScript)}
}

func jsonRound(e Ev, marshal func() ([]byte, error), unmarshal func([]byte) (interface{}, error)) {
	var back interface{}
	var err error
	p, msg := guard(func() {
		var b []byte
		b, err = marshal()
		if err != nil {
			return
		}
		// decoded twice from the same buffer: a decoder may neither modify nor retain its input
		keep := append([]byte{}, b...)
		var first interface{}
		if first, err = unmarshal(b); err != nil {
			return
		}
		if back, err = unmarshal(b); err != nil {
			return
		}
		f1, _ := json.Marshal(first)
		f2, _ := json.Marshal(back)
		if !bytes.Equal(b, keep) || !bytes.Equal(f1, f2) {
			back = Ev{"decoder": "modified or retained its input"}
		}
	})
	switch {
	case p:
		e["outcome"], e["panic"], e["back"] = "panic", msg, Ev{}
	case err != nil:
		e["outcome"], e["err"], e["back"] = "err", err.Error(), Ev{}
	default:
		e["outcome"], e["back"] = "ok", back
	}
}

func outScript(kind string, rngb []byte) *bscript.Script {
	switch kind {
	case "p2pkh":
		return p2pkhScript(0x31)
	case "data":
		s := bscript.Script(append([]byte{0x6a, 0x03}, 1, 2, 3))
		return &s
	case "falsedata":
		s := bscript.Script([]byte{0x00, 0x6a, 0x01, 0x07, 0x4c, 0x00})
		return &s
	case "other":
		s := bscript.Script([]byte{0x51, 0x21, 2, 1, 1, 1, 1, 1, 1, 1, 1, 1, 1, 1, 1, 1, 1, 1, 1, 1, 1, 1, 1, 1, 1, 1, 1, 1, 1, 1, 1, 1, 1, 1, 1, 1, 0x51, 0xae})
		return &s
	case "empty":
		s := bscript.Script([]byte{})
		return &s
	}
	s := bscript.Script(rngb)
	return &s
}

func jsonCmd(args []string) error {
	fs := flag.NewFlagSet("jsonx", flag.ExitOnError)
	out := fs.String("out", "json.ndjson", "trace file")
	casesPath := fs.String("cases", "", "TLC lifecycle cases")
	scriptsPath := fs.String("scripts", "", "TLC script-template cases (MC_ScriptClass) used as output scripts")
	rangeHi := fs.Int("range", 1000000, "exhaustive amount range [0, n)")
	n := fs.Int("n", 2000, "random / boundary amounts")
	fs.Parse(args)
	tr, err := newTrace(*out)
	if err != nil {
		return err
	}
	rng := newRand(16)
	key, _ := bec.NewPrivateKey(bec.S256())
	own, _ := bscript.NewP2PKHFromPubKeyBytes(key.PubKey().SerialiseCompressed())
	weird := [][]byte{{0x4c}, {0x01}, {0x4c, 0x00}, {0x01, 0x02, 0x4c, 0x00}, {0xff, 0xfe}, {0x4d, 0xff, 0xff, 0x00}}
	if *casesPath != "" {
		cs, err := readNDJSON(*casesPath)
		if err != nil {
			return err
		}
		for ci, c := range cs {
			tx := bt.NewTx()
			allSigned := true
			for i, x := range c["ins"].([]interface{}) {
				im := x.(map[string]interface{})
				if im["prev"].(bool) {
					tag := byte(0x50 + i)
					if ci%3 == 2 {
						tag = 0 // an all-zero previous txid (what a coinbase has) on a built transaction
					}
					addInput(tx, tag, uint32(i), 5000, own)
				} else {
					in := &bt.Input{PreviousTxOutIndex: uint32(i), SequenceNumber: []uint32{0xfffffffe, 0xffffffff}[ci%2]}
					tag := byte(0x60 + i)
					if ci%3 == 2 {
						tag = 0
					}
					_ = in.PreviousTxIDAdd(bytes.Repeat([]byte{tag}, 32))
					tx.Inputs = append(tx.Inputs, in)
				}
			}
			okOuts := true
			for i, k := range c["outs"].([]interface{}) {
				kind := k.(string)
				if kind == "weird" {
					okOuts = false
				}
				tx.AddOutput(&bt.Output{Satoshis: uint64(1000 + i), LockingScript: outScript(kind, weird[(ci+i)%len(weird)])})
			}
			for i, x := range c["ins"].([]interface{}) {
				if x.(map[string]interface{})["signed"].(bool) {
					_ = tx.FillInput(context.Background(), &unlocker.Simple{PrivateKey: key}, bt.UnlockerParams{InputIdx: uint32(i)})
				} else {
					allSigned = false
				}
			}
			dialect, obj := c["dialect"].(string), c["obj"].(string)
			e := Ev{"ev": "json", "src": "tlc", "dialect": dialect, "obj": obj, "nin": len(tx.Inputs), "nout": len(tx.Outputs), "expectok": allSigned && okOuts}
			switch obj {
			case "tx":
				e["orig"] = projJSONTx(tx)
				jsonRound(e, func() ([]byte, error) {
					if dialect == "node" {
						return json.Marshal(tx.NodeJSON())
					}
					return json.Marshal(tx)
				}, func(b []byte) (interface{}, error) {
					back := bt.NewTx()
					var err error
					if dialect == "node" {
						err = json.Unmarshal(b, back.NodeJSON())
					} else {
						err = json.Unmarshal(b, back)
					}
					if err != nil {
						return nil, err
					}
					return projJSONTx(back), nil
				})
			case "txs":
				txs := bt.Txs{tx, tx.Clone()}
				e["orig"] = []Ev{projJSONTx(txs[0]), projJSONTx(txs[1])}
				jsonRound(e, func() ([]byte, error) {
					if dialect == "node" {
						return json.Marshal(txs.NodeJSON())
					}
					return json.Marshal(txs)
				}, func(b []byte) (interface{}, error) {
					var back bt.Txs
					var err error
					if dialect == "node" {
						err = json.Unmarshal(b, back.NodeJSON())
					} else {
						err = json.Unmarshal(b, &back)
					}
					if err != nil {
						return nil, err
					}
					out := []Ev{}
					for _, t := range back {
						out = append(out, projJSONTx(t))
					}
					return out, nil
				})
			default:
				if len(tx.Outputs) == 0 {
					continue
				}
				o := tx.Outputs[len(tx.Outputs)-1]
				e["orig"] = projOut(o)
				jsonRound(e, func() ([]byte, error) {
					if dialect == "node" {
						return json.Marshal(o.NodeJSON())
					}
					return json.Marshal(o)
				}, func(b []byte) (interface{}, error) {
					back := &bt.Output{}
					var err error
					if dialect == "node" {
						err = json.Unmarshal(b, back.NodeJSON())
					} else {
						err = json.Unmarshal(b, back)
					}
					if err != nil {
						return nil, err
					}
					return projOut(back), nil
				})
			}
			tr.emit(e)
		}
	}
	// ---- outputs carrying template instances and their mutations (MC_ScriptClass cases) -----------
	if *scriptsPath != "" {
		cs, err := readNDJSON(*scriptsPath)
		if err != nil {
			return err
		}
		for _, c := range cs {
			ls := bscript.Script(unints(c["s"]))
			o := &bt.Output{Satoshis: 1234, LockingScript: &ls}
			for _, dialect := range []string{"lib", "node"} {
				dialect := dialect
				e := Ev{"ev": "json", "src": "class", "dialect": dialect, "obj": "output", "nin": 0, "nout": 1, "expectok": false, "orig": projOut(o)}
				jsonRound(e, func() ([]byte, error) {
					if dialect == "node" {
						return json.Marshal(o.NodeJSON())
					}
					return json.Marshal(o)
				}, func(b []byte) (interface{}, error) {
					back := &bt.Output{}
					var err error
					if dialect == "node" {
						err = json.Unmarshal(b, back.NodeJSON())
					} else {
						err = json.Unmarshal(b, back)
					}
					if err != nil {
						return nil, err
					}
					return projOut(back), nil
				})
				tr.emit(e)
			}
		}
	}
	// ---- UTXOs and UTXO lists (distinct elements: ids, indexes, amounts, scripts) ------------------
	for i := 0; i < 40; i++ {
		k := 1 + rng.Intn(4)
		us := bt.UTXOs{}
		orig := []Ev{}
		for j := 0; j < k; j++ {
			u := &bt.UTXO{TxID: randBytes(rng, 32), Vout: uint32(rng.Intn(5)), Satoshis: uint64(rng.Intn(1000000)), LockingScript: p2pkhScript(byte(10*i + j))}
			us = append(us, u)
			orig = append(orig, projUTXO(u))
		}
		for _, dialect := range []string{"lib", "node"} {
			e := Ev{"ev": "json", "src": "utxos", "dialect": dialect, "obj": "utxos", "nin": 0, "nout": k, "expectok": true, "orig": orig}
			jsonRound(e, func() ([]byte, error) {
				if dialect == "node" {
					return json.Marshal(us.NodeJSON())
				}
				return json.Marshal(us)
			}, func(b []byte) (interface{}, error) {
				var back bt.UTXOs
				var err error
				if dialect == "node" {
					err = json.Unmarshal(b, back.NodeJSON())
				} else {
					err = json.Unmarshal(b, &back)
				}
				if err != nil {
					return nil, err
				}
				out := []Ev{}
				for _, u := range back {
					out = append(out, projUTXO(u))
				}
				return out, nil
			})
			tr.emit(e)
			e1 := Ev{"ev": "json", "src": "utxo", "dialect": dialect, "obj": "utxo", "nin": 0, "nout": 1, "expectok": true, "orig": orig[0]}
			jsonRound(e1, func() ([]byte, error) {
				if dialect == "node" {
					return json.Marshal(us[0].NodeJSON())
				}
				return json.Marshal(us[0])
			}, func(b []byte) (interface{}, error) {
				back := &bt.UTXO{}
				var err error
				if dialect == "node" {
					err = json.Unmarshal(b, back.NodeJSON())
				} else {
					err = json.Unmarshal(b, back)
				}
				if err != nil {
					return nil, err
				}
				return projUTXO(back), nil
			})
			tr.emit(e1)
		}
	}
	// ---- amounts -------------------------------------------------------------------------
	roundOut := func(s uint64, node bool) (uint64, error) {
		o := &bt.Output{Satoshis: s, LockingScript: p2pkhScript(1)}
		back := &bt.Output{}
		var b []byte
		var err error
		if node {
			if b, err = json.Marshal(o.NodeJSON()); err == nil {
				err = json.Unmarshal(b, back.NodeJSON())
			}
		} else if b, err = json.Marshal(o); err == nil {
			err = json.Unmarshal(b, back)
		}
		return back.Satoshis, err
	}
	roundUTXO := func(s uint64, node bool) (uint64, error) {
		u := &bt.UTXO{TxID: bytes.Repeat([]byte{3}, 32), Vout: 1, Satoshis: s, LockingScript: p2pkhScript(2)}
		back := &bt.UTXO{}
		var b []byte
		var err error
		if node {
			if b, err = json.Marshal(u.NodeJSON()); err == nil {
				err = json.Unmarshal(b, back.NodeJSON())
			}
		} else if b, err = json.Marshal(u); err == nil {
			err = json.Unmarshal(b, back)
		}
		return back.Satoshis, err
	}
	type rt struct {
		kind string
		node bool
		f    func(uint64, bool) (uint64, error)
	}
	rts := []rt{{"output", true, roundOut}, {"output", false, roundOut}, {"utxo", true, roundUTXO}, {"utxo", false, roundUTXO}}
	amount := func(src string, s uint64) {
		for _, r := range rts {
			e := Ev{"ev": "amount", "src": src, "kind": r.kind, "node": r.node, "sats": le64(s), "dec": s}
			var back uint64
			var err error
			p, msg := guard(func() { back, err = r.f(s, r.node) })
			switch {
			case p:
				e["outcome"], e["panic"], e["back"] = "panic", msg, []int{}
			case err != nil:
				e["outcome"], e["back"] = "err", []int{}
			default:
				e["outcome"], e["back"] = "ok", le64(back)
			}
			tr.emit(e)
		}
	}
	const maxMoney = 2100000000000000
	for _, s := range []uint64{0, 1, 2, 3, 9, 10, 99, 100, 101, 54321, 99999999, 100000000, 100000001, 123456789, maxMoney - 1, maxMoney, maxMoney / 2, maxMoney/3 + 1} {
		amount("boundary", s)
	}
	for j := uint64(10); j < maxMoney; j *= 10 {
		for k := uint64(1); k < 10; k += 2 {
			for _, d := range []int64{-1, 0, 1} {
				if v := int64(k*j) + d; v >= 0 && uint64(v) <= maxMoney {
					amount("decimal", uint64(v))
				}
			}
		}
	}
	for i := 0; i < *n; i++ {
		amount("random", uint64(rng.Int63n(maxMoney+1)))
	}
	// exhaustive low range, summarised
	const chunk = 100000
	for lo := 0; lo < *rangeHi; lo += chunk {
		hi := lo + chunk
		if hi > *rangeHi {
			hi = *rangeHi
		}
		for _, r := range rts {
			if !r.node {
				continue
			}
			mism, errs, first := 0, 0, -1
			for s := lo; s < hi; s++ {
				back, err := r.f(uint64(s), true)
				if err != nil {
					errs++
				} else if back != uint64(s) {
					if mism == 0 {
						first = s
					}
					mism++
				}
			}
			tr.emit(Ev{"ev": "range", "kind": r.kind, "node": true, "lo": lo, "hi": hi, "mismatches": mism, "errors": errs, "first": first})
		}
	}
	return tr.close()
}
