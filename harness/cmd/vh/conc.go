package main

import (
	"encoding/json"
	"flag"
	"fmt"
	"os"
	"runtime"
	"sort"
	"sync"
	"time"

	"github.com/libsv/go-bt/v2"
	"github.com/libsv/go-bt/v2/bscript"
	"github.com/libsv/go-bt/v2/bscript/interpreter"
	"github.com/libsv/go-bt/v2/bscript/interpreter/scriptflag"
)

func init() { register("conc", concCmd) }

type concEnv struct {
	fqs *bt.FeeQuotes
	fq  *bt.FeeQuote
}

func newConcEnv() *concEnv {
	fqs := bt.NewFeeQuotes("m")
	fq, _ := fqs.Quote("m")
	// the stored standard fee is one a caller built without filling in Fee.FeeType (as in the
	// FeeQuote documentation example): readers must not need to repair it
	fq.AddQuote(bt.FeeTypeStandard, feeVal(7))
	return &concEnv{fqs, fq}
}

// feeVal builds a distinct fee; odd values leave Fee.FeeType empty, even ones fill it in.
func feeVal(v int) *bt.Fee {
	f := &bt.Fee{MiningFee: bt.FeeUnit{Satoshis: v, Bytes: 1000}, RelayFee: bt.FeeUnit{Satoshis: v, Bytes: 1000}}
	if v%2 == 0 {
		f.FeeType = bt.FeeTypeStandard
	}
	return f
}

var concMethods = map[string]func(e *concEnv, v int) interface{}{
	"FeeQuote.Fee":          func(e *concEnv, v int) interface{} { f, _ := e.fq.Fee(bt.FeeTypeStandard); return f },
	"FeeQuote.AddQuote":     func(e *concEnv, v int) interface{} { e.fq.AddQuote(bt.FeeTypeStandard, feeVal(v)); return nil },
	"FeeQuote.Expiry":       func(e *concEnv, v int) interface{} { return e.fq.Expiry() },
	"FeeQuote.UpdateExpiry": func(e *concEnv, v int) interface{} { e.fq.UpdateExpiry(time.Unix(int64(v), 0)); return nil },
	"FeeQuote.Expired":      func(e *concEnv, v int) interface{} { return e.fq.Expired() },
	"FeeQuote.MarshalJSON":  func(e *concEnv, v int) interface{} { b, _ := json.Marshal(e.fq); return len(b) },
	"FeeQuote.UnmarshalJSON": func(e *concEnv, v int) interface{} {
		doc := fmt.Sprintf(`{"standard":{"miningFee":{"satoshis":%d,"bytes":1000},"relayFee":{"satoshis":%d,"bytes":1000}},"data":{"miningFee":{"satoshis":5,"bytes":100},"relayFee":{"satoshis":5,"bytes":100}}}`, v, v)
		return json.Unmarshal([]byte(doc), e.fq)
	},
	"FeeQuotes.Quote":               func(e *concEnv, v int) interface{} { q, _ := e.fqs.Quote("m"); return q },
	"FeeQuotes.AddMiner":            func(e *concEnv, v int) interface{} { e.fqs.AddMiner("m2", bt.NewFeeQuote()); return nil },
	"FeeQuotes.AddMinerWithDefault": func(e *concEnv, v int) interface{} { e.fqs.AddMinerWithDefault("m3"); return nil },
	"FeeQuotes.Fee":                 func(e *concEnv, v int) interface{} { f, _ := e.fqs.Fee("m", bt.FeeTypeStandard); return f },
	"FeeQuotes.UpdateMinerFees": func(e *concEnv, v int) interface{} {
		_, err := e.fqs.UpdateMinerFees("m", bt.FeeTypeStandard, feeVal(v))
		return err
	},
}

func methodNames() []string {
	var out []string
	for k := range concMethods {
		out = append(out, k)
	}
	sort.Strings(out)
	return out
}

func concCmd(args []string) error {
	fs := flag.NewFlagSet("conc", flag.ExitOnError)
	mode := fs.String("mode", "discipline", "discipline | pair | history | engine | methods")
	out := fs.String("out", "conc.json", "output file")
	m1 := fs.String("m1", "", "method 1")
	m2 := fs.String("m2", "", "method 2")
	iters := fs.Int("iters", 300, "iterations")
	goroutines := fs.Int("g", 8, "goroutines")
	casesPath := fs.String("cases", "", "vm cases for -mode engine")
	fs.Parse(args)
	switch *mode {
	case "methods":
		b, _ := json.Marshal(methodNames())
		return os.WriteFile(*out, b, 0o644)
	case "discipline":
		// single-threaded: the hook log is the lock discipline of each method
		disc := map[string][]map[string]string{}
		for _, name := range methodNames() {
			e := newConcEnv()
			var log []map[string]string
			setVerifHook(func(method, op, on string) { log = append(log, map[string]string{"op": op, "on": on, "in": method}) })
			concMethods[name](e, 7)
			setVerifHook(nil)
			if log == nil {
				log = []map[string]string{}
			}
			disc[name] = log
		}
		b, _ := json.Marshal(disc)
		return os.WriteFile(*out, b, 0o644)
	case "pair":
		// two (or more) goroutines hammer the two methods on shared objects; under -race with
		// GORACE=halt_on_error=1 exitcode=66 the process exits 66 when the detector sees a race
		e := newConcEnv()
		var wg sync.WaitGroup
		start := make(chan struct{})
		for g := 0; g < *goroutines; g++ {
			name := *m1
			if g%2 == 1 {
				name = *m2
			}
			wg.Add(1)
			go func(g int, f func(*concEnv, int) interface{}) {
				defer wg.Done()
				<-start
				for i := 0; i < *iters; i++ {
					f(e, g*100000+i)
					if i%16 == 0 {
						runtime.Gosched()
					}
				}
			}(g, concMethods[name])
		}
		close(start)
		wg.Wait()
		return nil
	case "history":
		// writers store distinct values, readers record what they see
		e := newConcEnv()
		var wg sync.WaitGroup
		var mu sync.Mutex
		written := map[int]bool{5: true, 7: true} // the default quote and the one newConcEnv stores
		var reads []int
		for g := 0; g < *goroutines; g++ {
			wg.Add(1)
			go func(g int) {
				defer wg.Done()
				var local []int
				for i := 0; i < *iters; i++ {
					v := 1000000 + g*100000 + i
					switch (g + i) % 5 {
					case 0:
						mu.Lock()
						written[v] = true
						mu.Unlock()
						e.fq.AddQuote(bt.FeeTypeStandard, feeVal(v))
					case 1:
						mu.Lock()
						written[v] = true
						mu.Unlock()
						_, _ = e.fqs.UpdateMinerFees("m", bt.FeeTypeStandard, feeVal(v))
					case 2:
						if f, err := e.fqs.Fee("m", bt.FeeTypeStandard); err == nil {
							local = append(local, f.MiningFee.Satoshis)
						}
					case 3:
						mu.Lock()
						written[v] = true
						mu.Unlock()
						concMethods["FeeQuote.UnmarshalJSON"](e, v)
					default:
						if f, err := e.fq.Fee(bt.FeeTypeStandard); err == nil {
							local = append(local, f.MiningFee.Satoshis)
						}
					}
				}
				mu.Lock()
				reads = append(reads, local...)
				mu.Unlock()
			}(g)
		}
		wg.Wait()
		unexplained := []int{}
		for _, r := range reads {
			if !written[r] {
				unexplained = append(unexplained, r)
			}
		}
		b, _ := json.Marshal(Ev{"ev": "history", "reads": len(reads), "writes": len(written), "unexplained": unexplained, "g": *goroutines})
		return os.WriteFile(*out, append(b, '\n'), 0o644)
	case "engine":
		raw, err := readNDJSON(*casesPath)
		if err != nil {
			return err
		}
		var cases []vmCase
		for _, r := range raw {
			var c vmCase
			b, _ := json.Marshal(r)
			if json.Unmarshal(b, &c) == nil {
				cases = append(cases, c)
			}
		}
		eng := interpreter.NewEngine()
		// the script objects of a case are built once and shared by every transaction (a distinct *bt.Tx per
		// execution) that is validated against them, sequentially and from several goroutines at once
		type sharedScripts struct{ us, ls *bscript.Script }
		sh := make([]sharedScripts, len(cases))
		for i, c := range cases {
			sh[i] = sharedScripts{bscript.NewFromBytes(toBytes(c.Unlock)), bscript.NewFromBytes(toBytes(c.Lock))}
		}
		runIdx := func(i int) string {
			c := cases[i]
			us, ls := sh[i].us, sh[i].ls
			tx := &bt.Tx{Version: c.Ver, LockTime: c.Lt}
			in := &bt.Input{SequenceNumber: c.Seq, UnlockingScript: us}
			_ = in.PreviousTxIDAdd(make([]byte, 32))
			tx.Inputs = []*bt.Input{in}
			var res string
			func() {
				defer func() {
					if r := recover(); r != nil {
						res = "panic"
					}
				}()
				if err := eng.Execute(interpreter.WithScripts(ls, us), interpreter.WithFlags(scriptflag.Flag(c.Flags)),
					interpreter.WithTx(tx, 0, &bt.Output{LockingScript: ls})); err != nil {
					res = "err:" + err.Error()
				} else {
					res = "ok"
				}
			}()
			return res
		}
		seq := make([]string, len(cases))
		for i := range cases {
			seq[i] = runIdx(i)
		}
		const replicas = 3
		con := make([][replicas]string, len(cases))
		var wg sync.WaitGroup
		type job struct{ i, r int }
		jobs := make(chan job, replicas*len(cases))
		for i := range cases {
			for r := 0; r < replicas; r++ {
				jobs <- job{i, r}
			}
		}
		close(jobs)
		for g := 0; g < *goroutines; g++ {
			wg.Add(1)
			go func() {
				defer wg.Done()
				for j := range jobs {
					con[j.i][j.r] = runIdx(j.i)
				}
			}()
		}
		wg.Wait()
		mism := 0
		for i := range cases {
			for r := 0; r < replicas; r++ {
				if seq[i] != con[i][r] {
					mism++
				}
			}
		}
		b, _ := json.Marshal(Ev{"ev": "engine", "n": len(cases), "mismatches": mism, "g": *goroutines})
		return os.WriteFile(*out, append(b, '\n'), 0o644)
	}
	return fmt.Errorf("unknown mode %s", *mode)
}
