package main

import (
	"bufio"
	"bytes"
	"encoding/binary"
	"encoding/json"
	"flag"
	"fmt"
	"os"

	"github.com/libsv/go-bt/v2"
	"github.com/libsv/go-bt/v2/bscript"
	"github.com/libsv/go-bt/v2/bscript/interpreter"
	"github.com/libsv/go-bt/v2/bscript/interpreter/debug"
	"github.com/libsv/go-bt/v2/bscript/interpreter/scriptflag"
)

func init() { register("vm", vmCmd) }

// flagRecord renders the engine's flag word as the record ScriptVM.tla uses.
func flagRecord(fl scriptflag.Flag) (Ev, bool) {
	return Ev{
		"p2sh":        fl.HasFlag(scriptflag.Bip16),
		"nulldummy":   fl.HasFlag(scriptflag.StrictMultiSig),
		"discourage":  fl.HasFlag(scriptflag.DiscourageUpgradableNops),
		"cltv":        fl.HasFlag(scriptflag.VerifyCheckLockTimeVerify),
		"csv":         fl.HasFlag(scriptflag.VerifyCheckSequenceVerify),
		"cleanstack":  fl.HasFlag(scriptflag.VerifyCleanStack),
		"dersig":      fl.HasFlag(scriptflag.VerifyDERSignatures),
		"lows":        fl.HasFlag(scriptflag.VerifyLowS),
		"minimaldata": fl.HasFlag(scriptflag.VerifyMinimalData),
		"nullfail":    fl.HasFlag(scriptflag.VerifyNullFail),
		"sigpushonly": fl.HasFlag(scriptflag.VerifySigPushOnly),
		"forkid":      fl.HasFlag(scriptflag.EnableSighashForkID),
		"strictenc":   fl.HasFlag(scriptflag.VerifyStrictEncoding) || fl.HasFlag(scriptflag.EnableSighashForkID),
		"minimalif":   fl.HasFlag(scriptflag.VerifyMinimalIf),
		"bip143":      fl.HasFlag(scriptflag.VerifyBip143SigHash),
	}, fl.HasFlag(scriptflag.UTXOAfterGenesis)
}

// logCap: stack items longer than this are legal after Genesis (up to 2 GB) but far beyond what the specification
// models (ScriptVM!ModelLimit); they are logged by their first bytes only and the step is flagged.
const logCap = 1 << 20

func stackInts(st [][]byte) [][]int {
	out := make([][]int, len(st))
	for i, b := range st {
		if len(b) > logCap {
			b = b[:32]
		}
		out[i] = ints(b)
	}
	return out
}

func anyBig(st [][]byte) bool {
	for _, b := range st {
		if len(b) > logCap {
			return true
		}
	}
	return false
}

// recorder is a Debugger that records the callback stream and the AfterStep snapshots.
type recorder struct {
	prevDS   [][]byte
	prevAS   [][]byte
	steps    []Ev
	calls    []string
	cpos     []int // per callback: ScriptIdx*1000000 + OpcodeIdx of the snapshot it was handed (-1: no snapshot)
	scribble bool
	limit    int
	nsteps   int
}

type abortExecution struct{ why string }

func (r *recorder) see(name string, s *interpreter.State) {
	r.calls = append(r.calls, name)
	if s != nil {
		r.cpos = append(r.cpos, s.ScriptIdx*1000000+s.OpcodeIdx)
	} else {
		r.cpos = append(r.cpos, -1)
	}
	if r.scribble && s != nil {
		for _, st := range [][][]byte{s.DataStack, s.AltStack, s.ElseStack, s.SavedFirstStack} {
			for k, item := range st {
				for i := range item {
					item[i] ^= 0xa5
				}
				// a debugger may also grow what it was given: writes into spare capacity of a
				// snapshot item (empty items included) must not reach the running execution
				full := item[:cap(item)]
				for i := len(item); i < len(full); i++ {
					full[i] ^= 0x5a
				}
				st[k] = append(item, 0xee)
			}
		}
		for i := range s.CondStack {
			s.CondStack[i] = 7
		}
	}
}

func (r *recorder) BeforeExecute(s *interpreter.State)       { r.see("BeforeExecute", s) }
func (r *recorder) AfterExecute(s *interpreter.State)        { r.see("AfterExecute", s) }
func (r *recorder) BeforeStep(s *interpreter.State)          { r.see("BeforeStep", s) }
func (r *recorder) BeforeExecuteOpcode(s *interpreter.State) { r.see("BeforeExecuteOpcode", s) }
func (r *recorder) AfterExecuteOpcode(s *interpreter.State)  { r.see("AfterExecuteOpcode", s) }
func (r *recorder) BeforeScriptChange(s *interpreter.State)  { r.see("BeforeScriptChange", s) }
func (r *recorder) AfterScriptChange(s *interpreter.State)   { r.see("AfterScriptChange", s) }
func (r *recorder) AfterSuccess(s *interpreter.State)        { r.see("AfterSuccess", s) }
func (r *recorder) AfterError(s *interpreter.State, _ error) { r.see("AfterError", s) }
func (r *recorder) BeforeStackPush(s *interpreter.State, _ []byte) {
	r.see("BeforeStackPush", s)
}
func (r *recorder) AfterStackPush(s *interpreter.State, _ []byte) { r.see("AfterStackPush", s) }
func (r *recorder) BeforeStackPop(s *interpreter.State)           { r.see("BeforeStackPop", s) }
func (r *recorder) AfterStackPop(s *interpreter.State, _ []byte)  { r.see("AfterStackPop", s) }
func (r *recorder) AfterStep(s *interpreter.State) {
	// snapshot first, scribble afterwards
	// stacks are logged as a difference from the previous snapshot: the number of unchanged
	// bottom items and the items above them
	dk, ak := commonPrefix(r.prevDS, s.DataStack), commonPrefix(r.prevAS, s.AltStack)
	step := Ev{"ev": "step", "dk": dk, "dn": stackInts(s.DataStack[dk:]), "ak": ak, "an": stackInts(s.AltStack[ak:])}
	if anyBig(s.DataStack[dk:]) || anyBig(s.AltStack[ak:]) {
		step["big"] = true
	}
	r.steps = append(r.steps, step)
	r.prevDS, r.prevAS = cloneStack(s.DataStack), cloneStack(s.AltStack)
	r.nsteps++
	r.see("AfterStep", s)
	if r.limit > 0 && r.nsteps > r.limit {
		panic(abortExecution{"step limit"})
	}
}

func commonPrefix(a, b [][]byte) int {
	n := 0
	for n < len(a) && n < len(b) && bytes.Equal(a[n], b[n]) {
		n++
	}
	return n
}

func cloneStack(a [][]byte) [][]byte {
	out := make([][]byte, len(a))
	for i := range a {
		out[i] = append([]byte{}, a[i]...)
	}
	return out
}

type vmCase struct {
	ID     string `json:"id"`
	Unlock []int  `json:"unlock"`
	Lock   []int  `json:"lock"`
	Flags  uint32 `json:"flags"`
	Ver    uint32 `json:"ver"`
	Lt     uint32 `json:"lt"`
	Seq    uint32 `json:"seq"`
	NoTx   bool   `json:"notx"`
	Src    string `json:"src"`
	// odd transaction contexts (C07): input index override, nil previous output, extra inputs
	Idx     *int `json:"idx,omitempty"`
	NilPrev bool `json:"nilprev,omitempty"`
	NIn     int  `json:"nin,omitempty"`
	// explicit spending transaction (signature scenarios): the checked input is TxIdx
	Tx     *caseTx `json:"tx,omitempty"`
	TxIdx  int     `json:"txidx,omitempty"`
	Amount uint64  `json:"amount,omitempty"`
	Sx     Ev      `json:"sx,omitempty"`
	// what a freshly library-signed transaction object still carries on the checked input
	CarrySats   *uint64 `json:"carrySats,omitempty"`
	CarryScript []int   `json:"carryScript,omitempty"`
}

type caseIn struct {
	Tag  int    `json:"tag"`
	Vout uint32 `json:"vout"`
	Seq  uint32 `json:"seq"`
}
type caseOut struct {
	Sats   uint64 `json:"sats"`
	Script []int  `json:"script"`
}
type caseTx struct {
	Ver  uint32    `json:"ver"`
	Lt   uint32    `json:"lt"`
	Ins  []caseIn  `json:"ins"`
	Outs []caseOut `json:"outs"`
}

func (ct *caseTx) build(idx int, unlock *bscript.Script) *bt.Tx {
	tx := &bt.Tx{Version: ct.Ver, LockTime: ct.Lt}
	for k, i := range ct.Ins {
		in := &bt.Input{PreviousTxOutIndex: i.Vout, SequenceNumber: i.Seq, UnlockingScript: bscript.NewFromBytes([]byte{})}
		_ = in.PreviousTxIDAdd(bytes.Repeat([]byte{byte(i.Tag)}, 32))
		if k == idx {
			in.UnlockingScript = unlock
		}
		tx.Inputs = append(tx.Inputs, in)
	}
	for _, o := range ct.Outs {
		tx.Outputs = append(tx.Outputs, &bt.Output{Satoshis: o.Sats, LockingScript: bscript.NewFromBytes(toBytes(o.Script))})
	}
	return tx
}

func toBytes(a []int) []byte {
	b := make([]byte, len(a))
	for i, x := range a {
		b[i] = byte(x)
	}
	return b
}

// fanout builds a debug.NewDebugger whose every attach point feeds r, twice (two handlers per point:
// both must fire, in attachment order).
func fanout(r *recorder, second *[]string) interpreter.Debugger {
	d := debug.NewDebugger()
	st := func(name string) (debug.ThreadStateFunc, debug.ThreadStateFunc) {
		return func(s *interpreter.State) { r.see(name, s) }, func(s *interpreter.State) { *second = append(*second, name) }
	}
	a, b := st("BeforeExecute")
	d.AttachBeforeExecute(a)
	d.AttachBeforeExecute(b)
	a, b = st("AfterExecute")
	d.AttachAfterExecute(a)
	d.AttachAfterExecute(b)
	a, b = st("BeforeStep")
	d.AttachBeforeStep(a)
	d.AttachBeforeStep(b)
	d.AttachAfterStep(func(s *interpreter.State) { r.AfterStep(s) })
	d.AttachAfterStep(func(s *interpreter.State) { *second = append(*second, "AfterStep") })
	a, b = st("BeforeExecuteOpcode")
	d.AttachBeforeExecuteOpcode(a)
	d.AttachBeforeExecuteOpcode(b)
	a, b = st("AfterExecuteOpcode")
	d.AttachAfterExecuteOpcode(a)
	d.AttachAfterExecuteOpcode(b)
	a, b = st("BeforeScriptChange")
	d.AttachBeforeScriptChange(a)
	d.AttachBeforeScriptChange(b)
	a, b = st("AfterScriptChange")
	d.AttachAfterScriptChange(a)
	d.AttachAfterScriptChange(b)
	a, b = st("AfterSuccess")
	d.AttachAfterSuccess(a)
	d.AttachAfterSuccess(b)
	d.AttachAfterError(func(s *interpreter.State, _ error) { r.see("AfterError", s) })
	d.AttachAfterError(func(s *interpreter.State, _ error) { *second = append(*second, "AfterError") })
	d.AttachBeforeStackPush(func(s *interpreter.State, _ []byte) { r.see("BeforeStackPush", s) })
	d.AttachBeforeStackPush(func(s *interpreter.State, _ []byte) { *second = append(*second, "BeforeStackPush") })
	d.AttachAfterStackPush(func(s *interpreter.State, _ []byte) { r.see("AfterStackPush", s) })
	d.AttachAfterStackPush(func(s *interpreter.State, _ []byte) { *second = append(*second, "AfterStackPush") })
	a, b = st("BeforeStackPop")
	d.AttachBeforeStackPop(a)
	d.AttachBeforeStackPop(b)
	d.AttachAfterStackPop(func(s *interpreter.State, _ []byte) { r.see("AfterStackPop", s) })
	d.AttachAfterStackPop(func(s *interpreter.State, _ []byte) { *second = append(*second, "AfterStackPop") })
	return d
}

type vmResult struct {
	second  []string // callbacks seen by the second handler of each fan-out attach point
	outcome string   // ok | err | panic | nonterm
	errText string
	rec     *recorder
	same    bool
}

// apiShape: how the scripts reach the engine - a function of the case, so that replays take the same path.
// 0: WithScripts and the unlocking script also recorded on the transaction's input; 1: WithScripts only.
func apiShape(c vmCase) int { return (len(c.Unlock) + 3*len(c.Lock) + int(c.Flags%5)) % 2 }

// runVM executes one case. dbg: "none" | "rec" | "scribble".
func runVM(c vmCase, dbg string) (res vmResult) {
	unlock, lock := toBytes(c.Unlock), toBytes(c.Lock)
	us, ls := bscript.NewFromBytes(append([]byte{}, unlock...)), bscript.NewFromBytes(append([]byte{}, lock...))
	opts := []interpreter.ExecutionOptionFunc{interpreter.WithScripts(ls, us), interpreter.WithFlags(scriptflag.Flag(c.Flags))}
	var tx *bt.Tx
	var txBefore []byte
	if c.Tx != nil {
		tx = c.Tx.build(c.TxIdx, us)
		if c.CarrySats != nil {
			tx.Inputs[c.TxIdx].PreviousTxSatoshis = *c.CarrySats
			tx.Inputs[c.TxIdx].PreviousTxScript = bscript.NewFromBytes(toBytes(c.CarryScript))
		}
		if apiShape(c) == 1 {
			tx.Inputs[c.TxIdx].UnlockingScript = nil // scripts handed over through WithScripts only
		}
		txBefore = tx.Bytes()
		opts = append(opts, interpreter.WithTx(tx, c.TxIdx, &bt.Output{Satoshis: c.Amount, LockingScript: ls}))
	} else if !c.NoTx {
		tx = &bt.Tx{Version: c.Ver, LockTime: c.Lt}
		in := &bt.Input{PreviousTxOutIndex: 0, SequenceNumber: c.Seq, UnlockingScript: us}
		_ = in.PreviousTxIDAdd(bytes.Repeat([]byte{0x11}, 32))
		tx.Inputs = []*bt.Input{in}
		for k := 1; k < c.NIn; k++ {
			extra := &bt.Input{PreviousTxOutIndex: uint32(k), SequenceNumber: c.Seq, UnlockingScript: bscript.NewFromBytes([]byte{0x51})}
			_ = extra.PreviousTxIDAdd(bytes.Repeat([]byte{0x22}, 32))
			tx.Inputs = append(tx.Inputs, extra)
		}
		tx.Outputs = []*bt.Output{{Satoshis: 0, LockingScript: bscript.NewFromBytes([]byte{})}}
		if apiShape(c) == 1 {
			in.UnlockingScript = nil // a transaction that is not unlocked yet; scripts through WithScripts only
		}
		txBefore = tx.Bytes()
		idx := 0
		if c.Idx != nil {
			idx = *c.Idx
		}
		var prev *bt.Output
		if !c.NilPrev {
			prev = &bt.Output{Satoshis: 0, LockingScript: ls}
		}
		opts = append(opts, interpreter.WithTx(tx, idx, prev))
	}
	res = vmResult{rec: &recorder{scribble: dbg == "scribble", limit: len(unlock) + len(lock) + 600, calls: []string{}, cpos: []int{}}}
	var second []string
	if dbg == "fanout" {
		opts = append(opts, interpreter.WithDebugger(fanout(res.rec, &second)))
		defer func() { res.second = second }()
	} else if dbg != "none" {
		opts = append(opts, interpreter.WithDebugger(res.rec))
	}
	var err error
	func() {
		defer func() {
			if r := recover(); r != nil {
				if a, ok := r.(abortExecution); ok {
					res.outcome, res.errText = "nonterm", a.why
				} else {
					res.outcome, res.errText = "panic", fmt.Sprint(r)
				}
			}
		}()
		err = interpreter.NewEngine().Execute(opts...)
		if err != nil {
			res.outcome, res.errText = "err", err.Error()
		} else {
			res.outcome = "ok"
		}
	}()
	res.same = bytes.Equal(*us, unlock) && bytes.Equal(*ls, lock) && (tx == nil || bytes.Equal(tx.Bytes(), txBefore))
	if tx != nil && c.Tx != nil && res.outcome != "panic" && len(tx.Inputs) == len(c.Tx.Ins) {
		// the only thing Execute may record on the transaction: the spent output on the checked input
		for k, in := range tx.Inputs {
			if k == c.TxIdx {
				untouched := in.PreviousTxScript == nil && in.PreviousTxSatoshis == 0
				if c.CarrySats != nil {
					untouched = in.PreviousTxScript != nil && bytes.Equal(*in.PreviousTxScript, toBytes(c.CarryScript)) && in.PreviousTxSatoshis == *c.CarrySats
				}
				recorded := in.PreviousTxScript != nil && bytes.Equal(*in.PreviousTxScript, lock) && in.PreviousTxSatoshis == c.Amount
				if !untouched && !recorded {
					res.same = false
				}
			} else if in.PreviousTxScript != nil || in.PreviousTxSatoshis != 0 {
				res.same = false
			}
		}
	}
	return res
}

func vmCmd(args []string) error {
	fs := flag.NewFlagSet("vm", flag.ExitOnError)
	out := fs.String("out", "vm.ndjson", "trace file")
	casesPath := fs.String("cases", "", "cases (ndjson)")
	three := fs.Bool("three", true, "also run without debugger and with the scribbling debugger")
	start := fs.Int("start", 0, "skip the first k cases (restart after a crash)")
	fs.Parse(args)
	// cases are streamed: one line is decoded, executed and forgotten (files of several hundred MB in thorough runs)
	cf, err := os.Open(*casesPath)
	if err != nil {
		return err
	}
	defer cf.Close()
	sc := bufio.NewScanner(cf)
	sc.Buffer(make([]byte, 1<<20), 1<<28)
	mode := os.O_CREATE | os.O_WRONLY | os.O_TRUNC
	if *start > 0 {
		mode = os.O_CREATE | os.O_WRONLY | os.O_APPEND
	}
	f, err := os.OpenFile(*out, mode, 0o644)
	if err != nil {
		return err
	}
	defer f.Close()
	w := func(e Ev) {
		b, _ := json.Marshal(e)
		f.Write(append(b, '\n'))
	}
	le := func(v uint32) []int { b := make([]byte, 4); binary.LittleEndian.PutUint32(b, v); return ints(b) }
	intent := *out + ".intent"
	for i := 0; sc.Scan(); i++ {
		if len(sc.Bytes()) == 0 {
			i--
			continue
		}
		if i < *start {
			continue
		}
		var c vmCase
		if err := json.Unmarshal(sc.Bytes(), &c); err != nil {
			return err
		}
		os.WriteFile(intent, []byte(fmt.Sprintf("%d", i)), 0o644)
		fr, genesis := flagRecord(scriptflag.Flag(c.Flags))
		r := runVM(c, "rec")
		beg := Ev{"ev": "begin", "id": c.ID, "case": i, "src": c.Src, "unlock": c.Unlock, "lock": c.Lock, "flags": c.Flags, "genesis": genesis, "f": fr,
			"ver": le(c.Ver), "lt": le(c.Lt), "seq": le(c.Seq), "notx": c.NoTx}
		if c.Tx != nil {
			beg["ver"], beg["lt"], beg["seq"] = le(c.Tx.Ver), le(c.Tx.Lt), le(c.Tx.Ins[c.TxIdx].Seq)
		}
		if c.Sx != nil {
			beg["sx"] = c.Sx
		}
		w(beg)
		for _, s := range r.rec.steps {
			w(s)
		}
		end := Ev{"ev": "end", "outcome": r.outcome, "err": r.errText, "same": r.same, "steps": len(r.rec.steps), "calls": r.rec.calls,
			"oddctx": c.Idx != nil || c.NilPrev}
		if *three {
			n := runVM(c, "none")
			s := runVM(c, "scribble")
			end["nodbg"], end["nodbgErr"], end["nodbgSame"] = n.outcome, n.errText, n.same
			end["scribble"], end["scribbleErr"] = s.outcome, s.errText
			// the scribbling run must have produced the same snapshots
			sameSnaps := len(s.rec.steps) == len(r.rec.steps)
			if sameSnaps {
				for k := range s.rec.steps {
					a, _ := json.Marshal(s.rec.steps[k])
					b, _ := json.Marshal(r.rec.steps[k])
					if !bytes.Equal(a, b) {
						sameSnaps = false
						break
					}
				}
			}
			end["scribbleSameSnapshots"] = sameSnaps
			end["scribbleSameCalls"] = fmt.Sprint(s.rec.calls) == fmt.Sprint(r.rec.calls) && fmt.Sprint(s.rec.cpos) == fmt.Sprint(r.rec.cpos)
			end["cpos"] = r.rec.cpos
			// debug.NewDebugger fan-out: every attach point, two handlers each
			fo := runVM(c, "fanout")
			end["fanout"], end["fanoutErr"] = fo.outcome, fo.errText
			end["fanoutSameCalls"] = fmt.Sprint(fo.rec.calls) == fmt.Sprint(r.rec.calls) && fmt.Sprint(fo.second) == fmt.Sprint(r.rec.calls)
		}
		w(end)
	}
	os.Remove(intent)
	return nil
}
