// Command vh is the Go side of /verif: it drives the real go-bt library (built from /repo's
// working tree, tag `verif`) and records what it did as NDJSON traces for TLC to judge.
// It contains no expected values: every verdict comes from the TLA+ specification.
package main

import (
	"fmt"
	"os"
	"sort"
)

var commands = map[string]func(args []string) error{}

func register(name string, f func(args []string) error) { commands[name] = f }

func main() {
	if len(os.Args) < 2 || commands[os.Args[1]] == nil {
		names := []string{}
		for k := range commands {
			names = append(names, k)
		}
		sort.Strings(names)
		fmt.Fprintln(os.Stderr, "usage: vh <command> [flags]; commands:", names)
		os.Exit(2)
	}
	if err := commands[os.Args[1]](os.Args[2:]); err != nil {
		fmt.Fprintln(os.Stderr, "vh:", err)
		os.Exit(3)
	}
}
