package main

import (
	"bytes"
	"encoding/json"
	"flag"

	"github.com/libsv/go-bt/v2"
	"github.com/libsv/go-bt/v2/bscript"
)

func init() { register("inspect", inspectCmd) }

func inspectEvent(src string, sb []byte) Ev {
	r := Ev{"type": "?", "isP2PKH": false, "isP2PK": false, "isP2SH": false, "isData": false, "isMulti": false, "isInscr": false,
		"pkh": Ev{"ok": false, "h": []int{}}}
	panics := []string{}
	var cur *bscript.Script
	call := func(name string, f func()) {
		cur = nil
		if p, msg := guard(f); p {
			panics = append(panics, name+": "+msg)
		} else if cur != nil && !bytes.Equal(*cur, sb) {
			// a query is a pure function of the script: it must leave the bytes it inspects alone
			panics = append(panics, name+": modifies the script it inspects")
		}
	}
	mk := func() *bscript.Script { cur = bscript.NewFromBytes(append([]byte{}, sb...)); return cur }
	call("ScriptType", func() { r["type"] = mk().ScriptType() })
	call("IsP2PKH", func() { r["isP2PKH"] = mk().IsP2PKH() })
	call("IsP2PK", func() { r["isP2PK"] = mk().IsP2PK() })
	call("IsP2SH", func() { r["isP2SH"] = mk().IsP2SH() })
	call("IsData", func() { r["isData"] = mk().IsData() })
	call("IsMultiSigOut", func() { r["isMulti"] = mk().IsMultiSigOut() })
	call("IsP2PKHInscription", func() { r["isInscr"] = mk().IsP2PKHInscription() })
	call("IsInscribed", func() { _ = mk().IsInscribed() })
	call("PublicKeyHash", func() {
		if h, err := mk().PublicKeyHash(); err == nil {
			r["pkh"] = Ev{"ok": true, "h": ints(h)}
		}
	})
	call("Addresses", func() { _, _ = mk().Addresses() })
	call("ToASM", func() { _, _ = mk().ToASM() })
	call("ParseInscription", func() { _, _ = mk().ParseInscription() })
	call("MinPushSize", func() { _ = bscript.MinPushSize(sb) })
	call("NodeJSON", func() {
		tx := bt.NewTx()
		tx.AddOutput(&bt.Output{Satoshis: 1, LockingScript: mk()})
		_, _ = json.Marshal(tx.NodeJSON())
		_, _ = json.Marshal(tx.Outputs[0].NodeJSON())
	})
	r["panics"] = panics
	return Ev{"ev": "inspect", "src": src, "s": ints(sb), "r": r}
}

func inspectCmd(args []string) error {
	fs := flag.NewFlagSet("inspect", flag.ExitOnError)
	out := fs.String("out", "inspect.ndjson", "trace file")
	casesPath := fs.String("cases", "", "cases: s")
	n := fs.Int("n", 2000, "random scripts")
	two := fs.Int("two", 3000, "how many of the 65,536 two-byte scripts (all if >= 65536)")
	only := fs.Bool("only", false, "cases only")
	fs.Parse(args)
	tr, err := newTrace(*out)
	if err != nil {
		return err
	}
	if *casesPath != "" {
		cs, err := readNDJSON(*casesPath)
		if err != nil {
			return err
		}
		for _, c := range cs {
			tr.emit(inspectEvent("tlc", unints(c["s"])))
		}
	}
	if !*only {
		rng := newRand(14)
		tr.emit(inspectEvent("short", []byte{}))
		for a := 0; a < 256; a++ {
			tr.emit(inspectEvent("short", []byte{byte(a)}))
		}
		if *two >= 65536 {
			for a := 0; a < 65536; a++ {
				tr.emit(inspectEvent("short", []byte{byte(a >> 8), byte(a)}))
			}
		} else {
			for i := 0; i < *two; i++ {
				tr.emit(inspectEvent("short", []byte{byte(rng.Intn(256)), byte(rng.Intn(256))}))
			}
		}
		// long pushes on the PUSHDATA1 / PUSHDATA2 boundary (254, 255, 256 bytes), bare and inside data carriers,
		// complete and one byte short
		for _, l := range []int{254, 255, 256} {
			d := randBytes(rng, l)
			var forms [][]byte
			if l <= 255 {
				forms = append(forms, append([]byte{0x4c, byte(l)}, d...))
			}
			forms = append(forms, append([]byte{0x4d, byte(l), byte(l >> 8)}, d...))
			for _, f := range forms {
				for _, pre := range [][]byte{{}, {0x6a}, {0x00, 0x6a}, {0x51}} {
					sc := append(append([]byte{}, pre...), f...)
					tr.emit(inspectEvent("longpush", sc))
					tr.emit(inspectEvent("longpush", sc[:len(sc)-1]))
					tr.emit(inspectEvent("longpush", append(sc, 0xae)))
				}
			}
		}
		alpha := []byte{0x00, 0x01, 0x02, 0x14, 0x21, 0x41, 0x4c, 0x4d, 0x4e, 0x4f, 0x51, 0x52, 0x60, 0x63, 0x68, 0x6a, 0x76, 0x87, 0x88, 0xa9, 0xac, 0xae, 0xff}
		for i := 0; i < *n; i++ {
			l := 3 + rng.Intn(6)
			b := make([]byte, l)
			for j := range b {
				b[j] = alpha[rng.Intn(len(alpha))]
			}
			tr.emit(inspectEvent("alpha", b))
			tr.emit(inspectEvent("random", randBytes(rng, rng.Intn(70))))
		}
	}
	return tr.close()
}
