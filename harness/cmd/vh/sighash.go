package main

import (
	"bytes"
	"encoding/hex"
	"encoding/json"
	"flag"
	"fmt"
	"math/rand"

	"github.com/libsv/go-bt/v2"
	"github.com/libsv/go-bt/v2/bscript"
	"github.com/libsv/go-bt/v2/sighash"
)

func init() { register("sighash", sighashCmd) }

// projSig is projTx plus, per input, whether the previous txid / previous script are present.
func projSig(tx *bt.Tx) Ev {
	p := projTx(tx)
	ins := p["ins"].([]Ev)
	for k, in := range tx.Inputs {
		ins[k]["hasid"] = len(in.PreviousTxID()) != 0
		ins[k]["hasps"] = in.PreviousTxScript != nil
	}
	return p
}

func nilness(tx *bt.Tx) []bool {
	var out []bool
	for _, in := range tx.Inputs {
		out = append(out, in.PreviousTxScript == nil, in.UnlockingScript == nil, in.PreviousTxID() == nil)
	}
	return out
}

func sameBools(a, b []bool) bool {
	if len(a) != len(b) {
		return false
	}
	for i := range a {
		if a[i] != b[i] {
			return false
		}
	}
	return true
}

func sigEvent(src string, tx *bt.Tx, idx uint32, ht byte) Ev {
	alg := "legacy"
	if ht&0x40 != 0 {
		alg = "forkid"
	}
	e := Ev{"ev": "pre", "src": src, "alg": alg, "tx": projSig(tx), "idx": int(idx), "ht4": []int{int(ht), 0, 0, 0},
		"pre": []int{}, "sigh": []int{}, "hasSigh": false, "outcome": "err", "same": true}
	before, nb := tx.ExtendedBytes(), nilness(tx)
	var pre, sh []byte
	var err, err2 error
	p, msg := guard(func() {
		if alg == "forkid" {
			pre, err = tx.CalcInputPreimage(idx, sighash.Flag(ht))
		} else {
			pre, err = tx.CalcInputPreimageLegacy(idx, sighash.Flag(ht))
		}
		sh, err2 = tx.CalcInputSignatureHash(idx, sighash.Flag(ht))
	})
	switch {
	case p:
		e["outcome"], e["panic"] = "panic", msg
	case err != nil:
		e["outcome"] = "err"
		if err2 == nil {
			e["outcome"] = "inconsistent" // preimage errors but the hash does not
		}
	default:
		e["outcome"], e["pre"] = "ok", ints(pre)
		if err2 == nil {
			e["sigh"], e["hasSigh"] = ints(sh), true
		} else {
			e["outcome"] = "inconsistent"
		}
	}
	e["same"] = bytes.Equal(before, tx.ExtendedBytes()) && sameBools(nb, nilness(tx))
	return e
}

func sighashCmd(args []string) error {
	fs := flag.NewFlagSet("sighash", flag.ExitOnError)
	out := fs.String("out", "sighash.ndjson", "trace file")
	casesPath := fs.String("cases", "", "TLC-generated cases")
	n := fs.Int("n", 200, "random transactions")
	per := fs.Int("per", 12, "(index, hash type) pairs per random transaction")
	alg := fs.String("alg", "forkid", "forkid | legacy: which half of the hash types")
	only := fs.Bool("only", false, "cases only")
	fs.Parse(args)
	tr, err := newTrace(*out)
	if err != nil {
		return err
	}
	want := func(ht byte) bool { return (ht&0x40 != 0) == (*alg == "forkid") }
	if *casesPath != "" {
		cs, err := readNDJSON(*casesPath)
		if err != nil {
			return err
		}
		for _, c := range cs {
			if c["chain"] != nil {
				// one object, evaluated repeatedly with in-place edits in between
				var tx *bt.Tx
				for k, x := range c["chain"].([]interface{}) {
					st := x.(map[string]interface{})
					m := st["tx"].(map[string]interface{})
					if tx == nil {
						tx = txFromSpec(m)
						fixNil(tx, m)
					} else {
						assignInPlace(tx, m)
					}
					ev := sigEvent("chain", tx, uint32(num(st["idx"])), byte(num(st["ht"])))
					ev["obj"], ev["k"] = 0, k
					tr.emit(ev)
				}
				continue
			}
			m := c["tx"].(map[string]interface{})
			tx := txFromSpec(m)
			for k, x := range m["ins"].([]interface{}) {
				im := x.(map[string]interface{})
				if !im["hasps"].(bool) {
					tx.Inputs[k].PreviousTxScript = nil
				}
				if !im["hasid"].(bool) {
					in := tx.Inputs[k]
					tx.Inputs[k] = &bt.Input{PreviousTxSatoshis: in.PreviousTxSatoshis, PreviousTxScript: in.PreviousTxScript,
						UnlockingScript: in.UnlockingScript, PreviousTxOutIndex: in.PreviousTxOutIndex, SequenceNumber: in.SequenceNumber}
					if (int(in.PreviousTxOutIndex)+int(in.SequenceNumber%7)+k+len(tx.Inputs))%2 == 1 { // a function of the case, so that a replay takes the same path
						// the same input as it comes out of the library JSON decoder with an empty txid
						// (the id is then an empty, non-nil slice), the spent output attached afterwards
						us := ""
						if in.UnlockingScript != nil {
							us = hex.EncodeToString(*in.UnlockingScript)
						}
						doc := fmt.Sprintf(`{"unlockingScript":"%s","txid":"","vout":%d,"sequence":%d}`, us, in.PreviousTxOutIndex, in.SequenceNumber)
						ji := &bt.Input{}
						if json.Unmarshal([]byte(doc), ji) == nil {
							ji.PreviousTxSatoshis, ji.PreviousTxScript = in.PreviousTxSatoshis, in.PreviousTxScript
							tx.Inputs[k] = ji
						}
					}
				}
			}
			ht := byte(num(c["ht"]))
			if c["force"] == nil && !want(ht) {
				continue
			}
			tr.emit(sigEvent("tlc", tx, uint32(num(c["idx"])), ht))
		}
	}
	if !*only {
		rng := newRand(2)
		for i := 0; i < *n; i++ {
			var g genTx
			for {
				g = gen(rng, true, false, i%50 == 0)
				if len(g.tx.Inputs) > 0 {
					break
				}
			}
			if i%2 == 1 {
				arenaize(g.tx)
			}
			for k := 0; k < *per; k++ {
				// the same object is hashed again after in-place edits of exported fields
				// (counts unchanged): a digest must depend on the transaction as it is now
				if k > 0 && rng.Intn(3) == 0 {
					editInPlace(rng, g.tx)
				}
				idx := uint32(rng.Intn(len(g.tx.Inputs) + 1))
				if rng.Intn(30) == 0 {
					idx = rng.Uint32()
				}
				var ht byte
				for {
					ht = byte(rng.Intn(256))
					if rng.Intn(2) == 0 {
						ht = []byte{1, 2, 3, 0x81, 0x82, 0x83, 0, 4}[rng.Intn(8)] | (ht & 0x40)
					}
					if want(ht) {
						break
					}
				}
				ev := sigEvent("gen", g.tx, idx, ht)
				ev["obj"], ev["k"] = i, k
				tr.emit(ev)
			}
		}
	}
	if !*only {
		// every length / count that is written as a varint inside a preimage, on both sides of
		// the 1/3-byte and 3/5-byte boundaries: the spent script of the signed input and the
		// locking script of an output
		rng := newRand(3)
		for _, l := range []int{252, 253, 65534, 65535, 65536} {
			for where := 0; where < 2; where++ {
				tx := &bt.Tx{Version: 1}
				for i := 0; i < 2; i++ {
					in := &bt.Input{PreviousTxOutIndex: uint32(i), SequenceNumber: 0xfffffffe, PreviousTxSatoshis: 5000, PreviousTxScript: p2pkhScript(byte(i))}
					_ = in.PreviousTxIDAdd(bytes.Repeat([]byte{byte(0x21 + i)}, 32))
					tx.Inputs = append(tx.Inputs, in)
				}
				tx.AddOutput(&bt.Output{Satoshis: 7, LockingScript: p2pkhScript(9)})
				tx.AddOutput(&bt.Output{Satoshis: 8, LockingScript: p2pkhScript(8)})
				long := bscript.Script(bytes.Repeat([]byte{0x51}, l))
				if where == 0 {
					tx.Inputs[1].PreviousTxScript = &long
				} else {
					tx.Outputs[1].LockingScript = &long
				}
				for _, base := range []byte{1, 2, 3, 0x81, 0x83} {
					ht := base
					if *alg == "forkid" {
						ht |= 0x40
					}
					tr.emit(sigEvent("gen-boundary", tx, 1, ht))
				}
				_ = rng
			}
		}
	}
	return tr.close()
}

// editInPlace changes one exported field of tx without changing the number of inputs/outputs.
func editInPlace(rng *rand.Rand, tx *bt.Tx) {
	switch rng.Intn(8) {
	case 0:
		if n := len(tx.Outputs); n > 0 {
			tx.Outputs[rng.Intn(n)].Satoshis += 1 + uint64(rng.Intn(1000))
		}
	case 1:
		if n := len(tx.Outputs); n > 0 {
			o := tx.Outputs[rng.Intn(n)]
			ls := append(bscript.Script{}, *o.LockingScript...)
			ls = append(ls, 0x51)
			o.LockingScript = &ls
		}
	case 2:
		in := tx.Inputs[rng.Intn(len(tx.Inputs))]
		in.SequenceNumber ^= 1 << uint(rng.Intn(32))
	case 3:
		in := tx.Inputs[rng.Intn(len(tx.Inputs))]
		in.PreviousTxOutIndex += 1
	case 4:
		in := tx.Inputs[rng.Intn(len(tx.Inputs))]
		in.PreviousTxSatoshis += 1 + uint64(rng.Intn(1000))
	case 5:
		tx.LockTime += 1
	case 6:
		tx.Version += 1
	case 7:
		in := tx.Inputs[rng.Intn(len(tx.Inputs))]
		if in.PreviousTxScript != nil {
			ps := append(bscript.Script{}, *in.PreviousTxScript...)
			ps = append(ps, 0x61)
			in.PreviousTxScript = &ps
		}
	}
}

// fixNil restores the nil previous scripts of a projection.
func fixNil(tx *bt.Tx, m map[string]interface{}) {
	for k, x := range m["ins"].([]interface{}) {
		im := x.(map[string]interface{})
		if hp, ok := im["hasps"].(bool); ok && !hp {
			tx.Inputs[k].PreviousTxScript = nil
		}
	}
}

// assignInPlace writes the exported fields of projection m into the existing object
// (same number of inputs and outputs), the way a caller edits a transaction.
func assignInPlace(tx *bt.Tx, m map[string]interface{}) {
	t2 := txFromSpec(m)
	fixNil(t2, m)
	tx.Version, tx.LockTime = t2.Version, t2.LockTime
	for k, in := range t2.Inputs {
		if k < len(tx.Inputs) {
			d := tx.Inputs[k]
			d.PreviousTxOutIndex, d.SequenceNumber, d.PreviousTxSatoshis = in.PreviousTxOutIndex, in.SequenceNumber, in.PreviousTxSatoshis
			d.PreviousTxScript, d.UnlockingScript = in.PreviousTxScript, in.UnlockingScript
		}
	}
	for k, o := range t2.Outputs {
		if k < len(tx.Outputs) {
			tx.Outputs[k].Satoshis, tx.Outputs[k].LockingScript = o.Satoshis, o.LockingScript
		}
	}
}

// arenaize re-homes every script of tx in one shared buffer (zero-copy parsers and pooled allocators do this):
// each script is a sub-slice whose spare capacity is the memory of the scripts that follow it.
func arenaize(tx *bt.Tx) {
	var arena []byte
	type span struct{ a, b int }
	var spans []span
	add := func(sc *bscript.Script) {
		if sc == nil {
			spans = append(spans, span{-1, -1})
			return
		}
		spans = append(spans, span{len(arena), len(arena) + len(*sc)})
		arena = append(arena, *sc...)
	}
	for _, in := range tx.Inputs {
		add(in.PreviousTxScript)
	}
	for _, in := range tx.Inputs {
		add(in.UnlockingScript)
	}
	for _, o := range tx.Outputs {
		add(o.LockingScript)
	}
	arena = append(arena, bytes.Repeat([]byte{0x77}, 64)...)
	k := 0
	view := func() *bscript.Script {
		sp := spans[k]
		k++
		if sp.a < 0 {
			return nil
		}
		sc := bscript.Script(arena[sp.a:sp.b])
		return &sc
	}
	for _, in := range tx.Inputs {
		in.PreviousTxScript = view()
	}
	for _, in := range tx.Inputs {
		in.UnlockingScript = view()
	}
	for _, o := range tx.Outputs {
		o.LockingScript = view()
	}
}
