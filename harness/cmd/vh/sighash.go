package main

import (
	"bytes"
	"flag"

	"github.com/libsv/go-bt/v2"
	"github.com/libsv/go-bt/v2/sighash"
)

func init() { register("sighash", sighashCmd) }

// projSig is projTx plus, per input, whether the previous txid / previous script are present.
func projSig(tx *bt.Tx) Ev {
	p := projTx(tx)
	ins := p["ins"].([]Ev)
	for k, in := range tx.Inputs {
		ins[k]["hasid"] = len(in.PreviousTxID()) != 0
		ins[k]["hasps"] = in.PreviousTxScript != nil
	}
	return p
}

func nilness(tx *bt.Tx) []bool {
	var out []bool
	for _, in := range tx.Inputs {
		out = append(out, in.PreviousTxScript == nil, in.UnlockingScript == nil, in.PreviousTxID() == nil)
	}
	return out
}

func sameBools(a, b []bool) bool {
	if len(a) != len(b) {
		return false
	}
	for i := range a {
		if a[i] != b[i] {
			return false
		}
	}
	return true
}

func sigEvent(src string, tx *bt.Tx, idx uint32, ht byte) Ev {
	alg := "legacy"
	if ht&0x40 != 0 {
		alg = "forkid"
	}
	e := Ev{"ev": "pre", "src": src, "alg": alg, "tx": projSig(tx), "idx": int(idx), "ht4": []int{int(ht), 0, 0, 0},
		"pre": []int{}, "sigh": []int{}, "hasSigh": false, "outcome": "err", "same": true}
	before, nb := tx.ExtendedBytes(), nilness(tx)
	var pre, sh []byte
	var err, err2 error
	p, msg := guard(func() {
		if alg == "forkid" {
			pre, err = tx.CalcInputPreimage(idx, sighash.Flag(ht))
		} else {
			pre, err = tx.CalcInputPreimageLegacy(idx, sighash.Flag(ht))
		}
		sh, err2 = tx.CalcInputSignatureHash(idx, sighash.Flag(ht))
	})
	switch {
	case p:
		e["outcome"], e["panic"] = "panic", msg
	case err != nil:
		e["outcome"] = "err"
		if err2 == nil {
			e["outcome"] = "inconsistent" // preimage errors but the hash does not
		}
	default:
		e["outcome"], e["pre"] = "ok", ints(pre)
		if err2 == nil {
			e["sigh"], e["hasSigh"] = ints(sh), true
		} else {
			e["outcome"] = "inconsistent"
		}
	}
	e["same"] = bytes.Equal(before, tx.ExtendedBytes()) && sameBools(nb, nilness(tx))
	return e
}

func sighashCmd(args []string) error {
	fs := flag.NewFlagSet("sighash", flag.ExitOnError)
	out := fs.String("out", "sighash.ndjson", "trace file")
	casesPath := fs.String("cases", "", "TLC-generated cases")
	n := fs.Int("n", 200, "random transactions")
	per := fs.Int("per", 12, "(index, hash type) pairs per random transaction")
	alg := fs.String("alg", "forkid", "forkid | legacy: which half of the hash types")
	only := fs.Bool("only", false, "cases only")
	fs.Parse(args)
	tr, err := newTrace(*out)
	if err != nil {
		return err
	}
	want := func(ht byte) bool { return (ht&0x40 != 0) == (*alg == "forkid") }
	if *casesPath != "" {
		cs, err := readNDJSON(*casesPath)
		if err != nil {
			return err
		}
		for _, c := range cs {
			m := c["tx"].(map[string]interface{})
			tx := txFromSpec(m)
			for k, x := range m["ins"].([]interface{}) {
				im := x.(map[string]interface{})
				if !im["hasps"].(bool) {
					tx.Inputs[k].PreviousTxScript = nil
				}
				if !im["hasid"].(bool) {
					in := tx.Inputs[k]
					tx.Inputs[k] = &bt.Input{PreviousTxSatoshis: in.PreviousTxSatoshis, PreviousTxScript: in.PreviousTxScript,
						UnlockingScript: in.UnlockingScript, PreviousTxOutIndex: in.PreviousTxOutIndex, SequenceNumber: in.SequenceNumber}
				}
			}
			ht := byte(num(c["ht"]))
			if c["force"] == nil && !want(ht) {
				continue
			}
			tr.emit(sigEvent("tlc", tx, uint32(num(c["idx"])), ht))
		}
	}
	if !*only {
		rng := newRand(2)
		for i := 0; i < *n; i++ {
			var g genTx
			for {
				g = gen(rng, true, false, i%50 == 0)
				if len(g.tx.Inputs) > 0 {
					break
				}
			}
			for k := 0; k < *per; k++ {
				idx := uint32(rng.Intn(len(g.tx.Inputs) + 1))
				if rng.Intn(30) == 0 {
					idx = rng.Uint32()
				}
				var ht byte
				for {
					ht = byte(rng.Intn(256))
					if rng.Intn(2) == 0 {
						ht = []byte{1, 2, 3, 0x81, 0x82, 0x83, 0, 4}[rng.Intn(8)] | (ht & 0x40)
					}
					if want(ht) {
						break
					}
				}
				tr.emit(sigEvent("gen", g.tx, idx, ht))
			}
		}
	}
	return tr.close()
}
