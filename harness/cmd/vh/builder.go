package main

import (
	"bytes"
	"context"
	"errors"
	"flag"
	"fmt"
	"math/rand"

	"github.com/libsv/go-bk/bec"
	"github.com/libsv/go-bt/v2"
	"github.com/libsv/go-bt/v2/bscript"
	"github.com/libsv/go-bt/v2/unlocker"
)

func init() { register("builder", builderCmd) }

// projB projects a transaction onto FeeMath.tla's abstract transaction (amounts and lengths;
// classification of scripts is left to the specification, which sees the script bytes).
func projB(tx *bt.Tx) Ev {
	ins := make([]Ev, 0, len(tx.Inputs))
	for _, in := range tx.Inputs {
		ul := 0
		if in.UnlockingScript != nil {
			ul = len(*in.UnlockingScript)
		}
		id := 0
		if t := in.PreviousTxID(); len(t) > 0 {
			id = int(t[0])
		}
		e := Ev{"sats": int(in.PreviousTxSatoshis), "ulen": ul, "present": in.PreviousTxScript != nil, "ps": []int{},
			"id": id, "vout": int(in.PreviousTxOutIndex), "seq": le32(in.SequenceNumber)}
		if in.PreviousTxScript != nil {
			ps := *in.PreviousTxScript
			if len(ps) > 400 {
				ps = ps[:400]
			}
			e["ps"] = ints(ps)
		}
		ins = append(ins, e)
	}
	outs := make([]Ev, 0, len(tx.Outputs))
	for _, o := range tx.Outputs {
		s := []byte{}
		if o.LockingScript != nil {
			s = *o.LockingScript
		}
		h := s
		if len(h) > 2 {
			h = h[:2]
		}
		outs = append(outs, Ev{"sats": int(o.Satoshis), "slen": len(s), "head": ints(h)})
	}
	return Ev{"ins": ins, "outs": outs}
}

type quote struct{ ss, sb, ds, db int }

func (q quote) fq() *bt.FeeQuote {
	f := bt.NewFeeQuote()
	f.AddQuote(bt.FeeTypeStandard, &bt.Fee{FeeType: bt.FeeTypeStandard, MiningFee: bt.FeeUnit{Satoshis: q.ss, Bytes: q.sb}, RelayFee: bt.FeeUnit{Satoshis: q.ss, Bytes: q.sb}})
	f.AddQuote(bt.FeeTypeData, &bt.Fee{FeeType: bt.FeeTypeData, MiningFee: bt.FeeUnit{Satoshis: q.ds, Bytes: q.db}, RelayFee: bt.FeeUnit{Satoshis: q.ds, Bytes: q.db}})
	return f
}
func (q quote) ev() Ev { return Ev{"ss": q.ss, "sb": q.sb, "ds": q.ds, "db": q.db} }

var quotes = []quote{{5, 100, 5, 100}, {1, 1, 1, 2}, {5, 1, 1, 3}, {500, 1000, 7, 2}, {1, 3, 0, 1}, {7, 2, 5, 100}, {50, 1000, 25, 1000}}

func p2pkhScript(tag byte) *bscript.Script {
	s, _ := bscript.NewP2PKHFromPubKeyHash(bytes.Repeat([]byte{tag}, 20))
	return s
}

func fillerScript(n int, data bool) *bscript.Script {
	b := make([]byte, n)
	for i := range b {
		b[i] = 0x51
	}
	if data && n > 0 {
		b[0] = 0x6a
	}
	s := bscript.Script(b)
	return &s
}

func inscriptionScript(key *bec.PrivateKey, payload int) *bscript.Script {
	prefix, _ := bscript.NewP2PKHFromPubKeyBytes(key.PubKey().SerialiseCompressed())
	tx := bt.NewTx()
	_ = tx.Inscribe(&bscript.InscriptionArgs{LockingScriptPrefix: prefix, Data: bytes.Repeat([]byte{7}, payload), ContentType: "text/plain"})
	return tx.Outputs[0].LockingScript
}

// nearInscription: a P2PKH inscription with one thing wrong (or unusual but still accepted): the envelope cut
// short, ENDIF missing or replaced, the "ord" tag changed or pushed differently, an opcode where a push belongs,
// a tail that is not an OP_RETURN section, the ord marker only inside the payload
func nearInscription(rng *rand.Rand, key *bec.PrivateKey) *bscript.Script {
	good := append(bscript.Script{}, *inscriptionScript(key, 3+rng.Intn(10))...)
	switch rng.Intn(9) {
	case 0:
		good = good[:len(good)-1] // no ENDIF
	case 1:
		good[len(good)-1] = 0x67 // ELSE instead of ENDIF
	case 2:
		good = good[:25+rng.Intn(len(good)-25)] // cut somewhere in the envelope
	case 3:
		good[29] ^= 0x20 // "Ord"
	case 4:
		good = append(good, 0x51) // a tail that is not OP_RETURN
	case 5:
		good = append(good, 0x6a, 0x01, 0x07) // an OP_RETURN section: still an inscription
	case 6:
		good[27] = 0x4c // the tag push turned into PUSHDATA1 (length byte = 'o')
	case 7:
		pre := append(bscript.Script{}, good[:25]...)
		good = append(append(pre, 0x75), good[25:]...) // an extra opcode between prefix and envelope
	case 8:
		pre := append(bscript.Script{}, good[:25]...)
		good = append(pre, 0x07, 0x00, 0x63, 0x03, 0x6f, 0x72, 0x64, 0x51) // marker bytes only as data after the prefix
	}
	return &good
}

func addInput(tx *bt.Tx, tag byte, vout uint32, sats uint64, ps *bscript.Script) {
	_ = tx.FromUTXOs(&bt.UTXO{TxID: bytes.Repeat([]byte{tag}, 32), Vout: vout, Satoshis: sats, LockingScript: ps})
}

// feesEvent records every size / fee query of C11 on tx.
func feesEvent(src string, tx *bt.Tx, q quote) Ev {
	e := Ev{"ev": "fees", "src": src, "tx": projB(tx), "q": q.ev()}
	p, msg := guard(func() {
		sz := tx.SizeWithTypes()
		e["size"] = Ev{"total": int(sz.TotalBytes), "std": int(sz.TotalStdBytes), "data": int(sz.TotalDataBytes)}
		e["real"] = len(tx.Bytes())
		e["sizefn"] = tx.Size()
		est := Ev{"ok": false, "total": 0, "std": 0, "data": 0}
		if es, err := tx.EstimateSizeWithTypes(); err == nil {
			est = Ev{"ok": true, "total": int(es.TotalBytes), "std": int(es.TotalStdBytes), "data": int(es.TotalDataBytes)}
		}
		if n, err := tx.EstimateSize(); err == nil {
			est["sizefn"] = n
		} else {
			est["sizefn"] = -1
		}
		e["est"] = est
		fq := q.fq()
		paid, err := tx.IsFeePaidEnough(fq)
		e["paid"] = Ev{"ok": err == nil, "val": paid}
		epaid, err := tx.EstimateIsFeePaidEnough(fq)
		e["estpaid"] = Ev{"ok": err == nil, "val": epaid}
		ef := Ev{"ok": false, "std": 0, "data": 0, "total": 0}
		if f, err := tx.EstimateFeesPaid(fq); err == nil {
			ef = Ev{"ok": true, "std": int(f.StdFeePaid), "data": int(f.DataFeePaid), "total": int(f.TotalFeePaid)}
		}
		e["estfees"] = ef
	})
	if p {
		e["ev"], e["panic"] = "panic", msg
	}
	return e
}

type dest struct {
	kind   string // new | existing | address
	script *bscript.Script
	idx    uint
	addr   string
}

func changeEvent(src string, tx *bt.Tx, q quote, d dest) Ev {
	e := Ev{"ev": "change", "src": src, "pre": projB(tx), "q": q.ev()}
	de := Ev{"kind": d.kind, "slen": 0, "head": []int{}, "idx": int(d.idx) + 1}
	if d.script != nil {
		h := []byte(*d.script)
		if len(h) > 2 {
			h = h[:2]
		}
		de["slen"], de["head"] = len(*d.script), ints(h)
	}
	if d.kind == "address" {
		de["kind"], de["slen"], de["head"] = "new", 25, []int{0x76, 0xa9}
	}
	e["dest"] = de
	var err error
	p, msg := guard(func() {
		switch d.kind {
		case "new":
			err = tx.Change(d.script, q.fq())
		case "address":
			err = tx.ChangeToAddress(d.addr, q.fq())
		case "existing":
			err = tx.ChangeToExistingOutput(d.idx, q.fq())
		}
	})
	e["api"] = d.kind
	e["ok"] = err == nil && !p
	if err != nil {
		e["err"] = err.Error()
		e["insufficient"] = errors.Is(err, bt.ErrInsufficientInputs)
	}
	if p {
		e["ev"], e["panic"] = "panic", msg
	}
	e["post"] = projB(tx)
	return e
}

type reply struct {
	kind  string
	utxos []*bt.UTXO
}

func utxoEv(u *bt.UTXO) Ev {
	ps := []byte{}
	if u.LockingScript != nil {
		ps = *u.LockingScript
	}
	id := 0
	if len(u.TxID) > 0 {
		id = int(u.TxID[0])
	}
	return Ev{"id": id, "vout": int(u.Vout), "sats": int(u.Satoshis), "present": u.LockingScript != nil, "ps": ints(ps)}
}

var errSupplier = errors.New("supplier failed")

func fundEvent(src string, tx *bt.Tx, q quote, replies []reply) Ev {
	e := Ev{"ev": "fund", "src": src, "pre": projB(tx), "q": q.ev()}
	rs := make([]Ev, 0, len(replies))
	for _, r := range replies {
		us := make([]Ev, 0, len(r.utxos))
		for _, u := range r.utxos {
			us = append(us, utxoEv(u))
		}
		rs = append(rs, Ev{"kind": r.kind, "utxos": us})
	}
	e["replies"] = rs
	// whatever other fields the supplier's records carry, funded inputs are final
	for _, r := range replies {
		for _, u := range r.utxos {
			u.SequenceNumber = []uint32{0, 1, 0xfffffffe, 0xffffffff}[(int(u.Vout)+int(u.Satoshis))%4]
		}
	}
	calls := []int{}
	k := 0
	var err error
	p, msg := guard(func() {
		err = tx.Fund(context.Background(), q.fq(), func(ctx context.Context, deficit uint64) ([]*bt.UTXO, error) {
			calls = append(calls, int(deficit))
			if k >= len(replies) {
				return nil, bt.ErrNoUTXO
			}
			r := replies[k]
			k++
			switch r.kind {
			case "noutxo":
				return nil, bt.ErrNoUTXO
			case "err":
				return nil, errSupplier
			}
			return r.utxos, nil
		})
	})
	e["calls"] = calls
	switch {
	case p:
		e["ev"], e["panic"] = "panic", msg
	case err == nil:
		e["outcome"] = "ok"
	case errors.Is(err, bt.ErrInsufficientFunds):
		e["outcome"] = "insufficient"
	case errors.Is(err, errSupplier):
		e["outcome"] = "err"
	default:
		e["outcome"], e["err"] = "esterr", err.Error()
	}
	e["post"] = projB(tx)
	return e
}

func signedEvent(src string, tx *bt.Tx, key *bec.PrivateKey) Ev {
	e := Ev{"ev": "signed", "src": src}
	est, err := tx.EstimateSize()
	if err != nil {
		return nil
	}
	e["est"] = est
	if err := tx.FillAllInputs(context.Background(), &unlocker.Getter{PrivateKey: key}); err != nil {
		return nil
	}
	e["real"] = tx.Size()
	ul := []int{}
	for _, in := range tx.Inputs {
		ul = append(ul, len(*in.UnlockingScript))
	}
	e["ulens"] = ul
	return e
}

// randomTx builds a transaction through the public API; returns the key its P2PKH inputs pay to.
func randomTx(rng *rand.Rand, allowOdd bool) (*bt.Tx, *bec.PrivateKey) {
	key, _ := bec.NewPrivateKey(bec.S256())
	own, _ := bscript.NewP2PKHFromPubKeyBytes(key.PubKey().SerialiseCompressed())
	tx := bt.NewTx()
	nin := 1 + rng.Intn(3)
	if rng.Intn(25) == 0 {
		nin = 0
	}
	if rng.Intn(40) == 1 {
		nin = 251 + rng.Intn(4) // the input count is a varint too: both sides of 252/253
	}
	for i := 0; i < nin; i++ {
		var ps *bscript.Script = own
		if allowOdd {
			switch rng.Intn(16) {
			case 14, 15:
				ps = nearInscription(rng, key)
			case 0:
				ps = inscriptionScript(key, rng.Intn(40))
			case 1:
				ps = fillerScript(1+rng.Intn(40), false)
			case 2:
				ps = nil
			case 3:
				ps = fillerScript(rng.Intn(3), true)
			}
		} else if rng.Intn(8) == 0 {
			ps = inscriptionScript(key, rng.Intn(40))
		}
		addInput(tx, byte(16+i), uint32(i), uint64(rng.Intn(3000)), ps)
	}
	nout := rng.Intn(5)
	switch rng.Intn(40) {
	case 0:
		nout = 251 + rng.Intn(4)
	}
	for i := 0; i < nout; i++ {
		switch k := rng.Intn(10); {
		case nout > 20:
			tx.AddOutput(&bt.Output{Satoshis: uint64(rng.Intn(3)), LockingScript: p2pkhScript(byte(i))})
		case k < 5:
			tx.AddOutput(&bt.Output{Satoshis: uint64(rng.Intn(2000)), LockingScript: p2pkhScript(byte(i))})
		case k == 5:
			_ = tx.AddOpReturnOutput(bytes.Repeat([]byte{9}, []int{0, 1, 10, 75, 76, 300, 70000}[rng.Intn(7)]))
		case k == 6:
			tx.AddOutput(&bt.Output{Satoshis: 0, LockingScript: fillerScript([]int{1, 2, 30, 253}[rng.Intn(4)], true)})
		case k == 7:
			tx.AddOutput(&bt.Output{Satoshis: uint64(rng.Intn(500)), LockingScript: fillerScript([]int{0, 1, 35, 253, 520}[rng.Intn(5)], false)})
		default:
			b := bscript.Script(append([]byte{0x00, 0x6a}, bytes.Repeat([]byte{1}, rng.Intn(50))...))
			tx.AddOutput(&bt.Output{Satoshis: 0, LockingScript: &b})
		}
	}
	// a transaction that went through Clone() or was parsed from bytes has empty (non-nil) unlocking
	// scripts on its unsigned inputs; an estimate must treat those as unsigned too
	switch rng.Intn(4) {
	case 0:
		tx = tx.Clone()
	case 1:
		if p, err := bt.NewTxFromBytes(tx.ExtendedBytes()); err == nil {
			for i, in := range tx.Inputs {
				if in.PreviousTxScript == nil {
					p.Inputs[i].PreviousTxScript = nil
				}
			}
			tx = p
		}
	}
	return tx, key
}

// tune sets the first input's amount to (outputs + fee the change step would require + delta)
func tune(tx *bt.Tx, q quote, delta int) {
	if len(tx.Inputs) == 0 {
		return
	}
	tx.Inputs[0].PreviousTxSatoshis = 0
	fees, err := tx.EstimateFeesPaid(q.fq())
	if err != nil {
		return
	}
	need := int(tx.TotalOutputSatoshis()) + int(fees.TotalFeePaid) - int(tx.TotalInputSatoshis()) + delta
	if need < 0 {
		need = 0
	}
	tx.Inputs[0].PreviousTxSatoshis = uint64(need)
}

func txFromB(m map[string]interface{}) *bt.Tx {
	tx := bt.NewTx()
	for i, x := range m["ins"].([]interface{}) {
		im := x.(map[string]interface{})
		var ps *bscript.Script
		switch im["kind"].(string) {
		case "p2pkh":
			ps = p2pkhScript(byte(0x40 + i))
		case "inscr":
			k, _ := bec.NewPrivateKey(bec.S256())
			ps = inscriptionScript(k, 5)
		case "other":
			ps = fillerScript(30, false)
		}
		id, vout := byte(0x20+i), uint32(i)
		if v, ok := im["id"]; ok {
			id, vout = byte(num(v)), uint32(num(im["vout"]))
		}
		addInput(tx, id, vout, uint64(num(im["sats"])), ps)
		if ul := num(im["ulen"]); ul > 0 {
			tx.Inputs[i].UnlockingScript = fillerScript(ul, false)
		}
	}
	for i, x := range m["outs"].([]interface{}) {
		om := x.(map[string]interface{})
		slen, data := num(om["slen"]), om["data"].(bool)
		var s *bscript.Script
		if !data && slen == 25 {
			s = p2pkhScript(byte(i))
		} else {
			s = fillerScript(slen, data)
		}
		tx.AddOutput(&bt.Output{Satoshis: uint64(num(om["sats"])), LockingScript: s})
	}
	return tx
}

func builderCmd(args []string) error {
	fs := flag.NewFlagSet("builder", flag.ExitOnError)
	out := fs.String("out", "builder.ndjson", "trace file")
	casesPath := fs.String("cases", "", "TLC-generated cases (MC_FeeMath / MC_Fund)")
	what := fs.String("what", "fees,change,fund", "event families to generate")
	n := fs.Int("n", 300, "random transactions per family")
	only := fs.Bool("only", false, "cases only")
	huge := fs.Bool("huge", false, "fund: one scenario whose input count crosses 65536")
	fs.Parse(args)
	tr, err := newTrace(*out)
	if err != nil {
		return err
	}
	emit := func(e Ev) {
		if e != nil {
			tr.emit(e)
		}
	}
	want := map[string]bool{}
	for _, w := range bytes.Split([]byte(*what), []byte(",")) {
		want[string(w)] = true
	}
	mkDest := func(m map[string]interface{}) dest {
		if m["kind"].(string) == "existing" {
			return dest{kind: "existing", idx: uint(num(m["idx"]) - 1)}
		}
		slen := num(m["slen"])
		if slen == 25 {
			return dest{kind: "new", script: p2pkhScript(0x77)}
		}
		return dest{kind: "new", script: fillerScript(slen, m["data"].(bool))}
	}
	if *casesPath != "" {
		cs, err := readNDJSON(*casesPath)
		if err != nil {
			return err
		}
		for _, c := range cs {
			qm := c["q"].(map[string]interface{})
			q := quote{num(qm["ss"]), num(qm["sb"]), num(qm["ds"]), num(qm["db"])}
			if c["hist"] != nil { // MC_Fund case
				tx := txFromB(c["tx0"].(map[string]interface{}))
				var replies []reply
				for _, x := range c["hist"].([]interface{}) {
					rm := x.(map[string]interface{})
					r := reply{kind: rm["kind"].(string)}
					for _, y := range rm["utxos"].([]interface{}) {
						um := y.(map[string]interface{})
						var ps *bscript.Script
						switch um["kind"].(string) {
						case "p2pkh":
							ps = p2pkhScript(0x55)
						case "inscr":
							k, _ := bec.NewPrivateKey(bec.S256())
							ps = inscriptionScript(k, 3)
						default:
							ps = fillerScript(20, false)
						}
						r.utxos = append(r.utxos, &bt.UTXO{TxID: bytes.Repeat([]byte{byte(num(um["id"]))}, 32), Vout: uint32(num(um["vout"])), Satoshis: uint64(num(um["sats"])), LockingScript: ps})
					}
					replies = append(replies, r)
				}
				emit(fundEvent("tlc", tx, q, replies))
				continue
			}
			tx := txFromB(c["pre"].(map[string]interface{}))
			emit(feesEvent("tlc", tx, q))
			emit(changeEvent("tlc", tx, q, mkDest(c["dest"].(map[string]interface{}))))
			emit(feesEvent("tlc-after", tx, q))
		}
	}
	if *only {
		return tr.close()
	}
	rng := newRand(10)
	deltas := []int{-5, -1, 0, 1, 2, 3, 10, 1000, 100000}
	if want["fees"] {
		for i := 0; i < *n; i++ {
			tx, key := randomTx(rng, true)
			q := quotes[rng.Intn(len(quotes))]
			if rng.Intn(3) == 0 {
				q = quote{1 + rng.Intn(600), 1 + rng.Intn(1000), rng.Intn(600), 1 + rng.Intn(1000)}
			}
			tune(tx, q, deltas[rng.Intn(len(deltas))])
			emit(feesEvent("gen", tx, q))
			// partial then full signing
			if len(tx.Inputs) > 0 && rng.Intn(2) == 0 {
				_ = tx.FillInput(context.Background(), &unlocker.Simple{PrivateKey: key}, bt.UnlockerParams{InputIdx: uint32(rng.Intn(len(tx.Inputs)))})
				emit(feesEvent("gen-partial", tx, q))
			}
			tx2, key2 := randomTx(rng, false)
			emit(signedEvent("gen", tx2, key2))
			emit(feesEvent("gen-signed", tx2, q))
		}
	}
	if want["fees"] {
		// fee = floor(bytes * sat / per): sizes on every exact multiple of the denominator (and one byte to each
		// side), for standard and for data bytes, under rates that are not binary fractions
		for _, q := range []quote{{29, 100, 57, 100}, {1, 3, 1, 7}, {7, 10, 3, 10}, {5, 100, 9, 10}, {333, 1000, 1, 6}} {
			for k := 1; k <= 16; k++ {
				for d := -1; d <= 1; d++ {
					// standard bytes: one unsigned P2PKH input (41) + one filler output
					if n := q.sb*k + d; n >= 70 && n < 4000 {
						tx := bt.NewTx()
						addInput(tx, 1, 0, 1000000, p2pkhScript(1))
						body := n - (4 + 1 + 41 + 1 + 8 + 4)
						l := body - 1
						if l >= 253 {
							l = body - 3
						}
						if l >= 0 && (l < 253 || l >= 253) && 8+len(bt.VarInt(uint64(l)).Bytes())+l == body+8 {
							tx.AddOutput(&bt.Output{Satoshis: 1, LockingScript: fillerScript(l, false)})
							if tx.Size() == n {
								emit(feesEvent("gen-multiple", tx, q))
							}
						}
					}
					// data bytes
					if n := q.db*k + d; n >= 2 && n < 4000 {
						tx := bt.NewTx()
						addInput(tx, 1, 0, 1000000, p2pkhScript(1))
						tx.AddOutput(&bt.Output{Satoshis: 0, LockingScript: fillerScript(n, true)})
						emit(feesEvent("gen-multiple", tx, q))
					}
				}
			}
		}
	}
	if want["fees"] {
		// the corner where the quoted fee is zero (a zero rate, or a rate that floors to zero for this size) and
		// inputs equal / exceed / fall short of outputs by one satoshi
		for _, q := range []quote{{0, 1, 0, 1}, {1, 100000, 1, 100000}, {0, 5, 3, 1}} {
			for _, d := range []int{-1, 0, 1} {
				for _, data := range []bool{false, true} {
					tx := bt.NewTx()
					addInput(tx, 1, 0, uint64(1000+d), p2pkhScript(1))
					tx.AddOutput(&bt.Output{Satoshis: 1000, LockingScript: p2pkhScript(2)})
					if data {
						tx.AddOutput(&bt.Output{Satoshis: 0, LockingScript: fillerScript(20, true)})
					}
					emit(feesEvent("gen-zero-fee", tx, q))
				}
			}
		}
	}
	if want["change"] {
		addrKey, _ := bec.NewPrivateKey(bec.S256())
		addr, _ := bscript.NewAddressFromPublicKey(addrKey.PubKey(), true)
		for i := 0; i < *n; i++ {
			tx, key := randomTx(rng, i%7 == 0)
			q := quotes[rng.Intn(len(quotes))]
			if rng.Intn(3) == 0 {
				q = quote{1 + rng.Intn(600), 1 + rng.Intn(1000), rng.Intn(600), 1 + rng.Intn(1000)}
			}
			if rng.Intn(3) == 0 && len(tx.Inputs) > 0 {
				_ = tx.FillAllInputs(context.Background(), &unlocker.Getter{PrivateKey: key})
			}
			var d dest
			switch k := rng.Intn(8); {
			case k < 3:
				d = dest{kind: "new", script: p2pkhScript(0x66)}
			case k == 3:
				d = dest{kind: "address", addr: addr.AddressString}
			case k == 4:
				d = dest{kind: "new", script: fillerScript([]int{1, 35, 253, 600}[rng.Intn(4)], false)}
			default:
				d = dest{kind: "existing", idx: uint(rng.Intn(len(tx.Outputs) + 1))}
			}
			// the amount relation is tuned against the transaction *with* its change output
			probe := tx.Clone()
			if d.kind != "existing" {
				s := d.script
				if s == nil {
					s = p2pkhScript(1)
				}
				probe.AddOutput(&bt.Output{LockingScript: s})
			}
			if len(tx.Inputs) > 0 {
				probe.Inputs[0].PreviousTxSatoshis = 0
				if fees, err := probe.EstimateFeesPaid(q.fq()); err == nil {
					need := int(probe.TotalOutputSatoshis()) + int(fees.TotalFeePaid) - int(probe.TotalInputSatoshis()) + deltas[rng.Intn(len(deltas))]
					if need < 0 {
						need = 0
					}
					tx.Inputs[0].PreviousTxSatoshis = uint64(need)
				}
			}
			emit(changeEvent("gen", tx, q, d))
			emit(feesEvent("gen-after-change", tx, q))
		}
	}
	if want["fund"] {
		for i := 0; i < *n; i++ {
			tx, _ := randomTx(rng, false)
			if rng.Intn(2) == 0 {
				tx.Inputs = nil
			}
			if len(tx.Outputs) > 20 {
				tx.Outputs = tx.Outputs[:3]
			}
			q := quotes[rng.Intn(len(quotes))]
			var replies []reply
			id := byte(100)
			for k := rng.Intn(5); k > 0; k-- {
				switch m := rng.Intn(10); {
				case m == 0:
					replies = append(replies, reply{kind: "noutxo"})
				case m == 1:
					replies = append(replies, reply{kind: "err"})
				default:
					r := reply{kind: "batch"}
					for j := rng.Intn(4); j > 0; j-- {
						var ps *bscript.Script = p2pkhScript(id)
						if rng.Intn(15) == 0 {
							ps = fillerScript(10, false)
						}
						r.utxos = append(r.utxos, &bt.UTXO{TxID: bytes.Repeat([]byte{id}, 32), Vout: uint32(rng.Intn(5)), Satoshis: uint64([]int{0, 1, 50, 600, 5000, 100000}[rng.Intn(6)]), LockingScript: ps})
						id++
					}
					replies = append(replies, r)
				}
			}
			emit(fundEvent("gen", tx, q, replies))
		}
	}
	if want["fund"] && *huge {
		// funding that takes the input count across 65535/65536 (the 3-byte / 5-byte count varint)
		tx := bt.NewTx()
		tx.AddOutput(&bt.Output{Satoshis: 70000000, LockingScript: p2pkhScript(1)})
		mk := func(n, from int, sats uint64) reply {
			r := reply{kind: "batch"}
			for j := 0; j < n; j++ {
				r.utxos = append(r.utxos, &bt.UTXO{TxID: bytes.Repeat([]byte{byte(from + j)}, 32), Vout: uint32(j % 7), Satoshis: sats, LockingScript: p2pkhScript(byte(j))})
			}
			return r
		}
		emit(fundEvent("gen-huge", tx, quote{1, 1, 1, 2}, []reply{mk(65530, 0, 1000), mk(10, 3, 1000), mk(1, 9, 50000000)}))
	}
	_ = fmt.Sprint
	return tr.close()
}
