package main

import (
	"flag"
	"strings"

	"github.com/libsv/go-bt/v2/bscript"
)

func init() { register("c17", c17) }

// c17 drives EncodeBIP276 / DecodeBIP276 / ValidateAddress.
// Inputs: (a) cases emitted by TLC (MC_BIP276 generator) (b) its own enumeration of
// (version, network) pairs, prefixes and payload lengths, with single-character corruptions.
func c17(args []string) error {
	fs := flag.NewFlagSet("c17", flag.ExitOnError)
	out := fs.String("out", "c17.ndjson", "trace file")
	cases := fs.String("cases", "", "TLC-generated cases (ndjson)")
	allPairs := fs.Bool("all", false, "all 65,025 (version, network) pairs")
	nCorrupt := fs.Int("corrupt", 20, "number of encodings whose every single-character corruption is tried")
	only := fs.Bool("only", false, "run only the cases file")
	big := fs.Bool("big", false, "only: one 520 000-byte payload encoded, decoded and validated")
	fs.Parse(args)
	tr, err := newTrace(*out)
	if err != nil {
		return err
	}
	rng := newRand(17)

	enc := func(src string, prefix string, v, n int, data []byte) string {
		var text string
		p, msg := guard(func() {
			text = bscript.EncodeBIP276(bscript.BIP276{Prefix: prefix, Version: v, Network: n, Data: data})
		})
		e := Ev{"ev": "enc", "src": src, "prefix": ints([]byte(prefix)), "version": v, "network": n, "data": ints(data), "text": ints([]byte(text))}
		if p {
			e["panic"] = msg
			e["ev"] = "panic"
		}
		tr.emit(e)
		return text
	}
	dec := func(src string, text string) {
		var r *bscript.BIP276
		var derr error
		p, msg := guard(func() { r, derr = bscript.DecodeBIP276(text) })
		e := Ev{"ev": "dec", "src": src, "text": ints([]byte(text)), "ok": derr == nil && !p}
		if p {
			e["panic"] = msg
			e["ev"] = "panic"
		}
		if derr == nil && r != nil {
			e["prefix"] = ints([]byte(r.Prefix))
			e["version"] = r.Version
			e["network"] = r.Network
			e["data"] = ints(r.Data)
		} else {
			e["prefix"], e["version"], e["network"], e["data"] = []int{}, 0, 0, []int{}
		}
		tr.emit(e)
	}
	val := func(src string, text string) {
		// ValidateAddress treats only "bitcoin-script:" strings as BIP276 (anything else is a Base58 address)
		if !strings.HasPrefix(text, bscript.PrefixScript+":") {
			return
		}
		var ok bool
		p, msg := guard(func() { ok, _ = bscript.ValidateAddress(text) })
		e := Ev{"ev": "val", "src": src, "text": ints([]byte(text)), "ok": ok}
		if p {
			e["panic"] = msg
			e["ev"] = "panic"
		}
		tr.emit(e)
	}

	// (a) TLC-generated cases: record, optional corruption (position, character)
	if *cases != "" {
		cs, err := readNDJSON(*cases)
		if err != nil {
			return err
		}
		for _, c := range cs {
			if c["k"] == "text" {
				t := string(unints(c["text"]))
				if c["ev"] == "val" {
					val("replay", t)
				} else {
					dec("replay", t)
				}
				continue
			}
			rec := c["rec"].(map[string]interface{})
			text := enc("tlc", string(unints(rec["prefix"])), num(rec["version"]), num(rec["network"]), unints(rec["data"]))
			if pos := num(c["cpos"]); pos > 0 && pos <= len(text) {
				b := []byte(text)
				b[pos-1] = byte(num(c["cch"]))
				text = string(b)
			}
			dec("tlc", text)
		}
	}

	if *only {
		return tr.close()
	}
	if *big {
		// only the one payload of more than half a megabyte (text above one million characters): no length is special
		data := make([]byte, 520000)
		rng.Read(data)
		text := enc("enum-big", bscript.PrefixScript, 1, 1, data)
		dec("enum-big", text)
		val("enum-big", text)
		return tr.close()
	}
	// (b) own enumeration
	edge := []int{1, 2, 9, 10, 15, 16, 17, 99, 100, 127, 128, 153, 171, 254, 255}
	type pair struct{ v, n int }
	var pairs []pair
	if *allPairs {
		for v := 1; v <= 255; v++ {
			for n := 1; n <= 255; n++ {
				pairs = append(pairs, pair{v, n})
			}
		}
	} else {
		for _, v := range edge {
			for _, n := range edge {
				pairs = append(pairs, pair{v, n})
			}
		}
		for i := 0; i < 600; i++ {
			pairs = append(pairs, pair{1 + rng.Intn(255), 1 + rng.Intn(255)})
		}
	}
	lens := []int{0, 1, 2, 25, 32, 300}
	var valid []string
	for i, p := range pairs {
		prefix := bscript.PrefixScript
		if i%2 == 1 {
			prefix = bscript.PrefixTemplate
		}
		data := make([]byte, lens[i%len(lens)])
		rng.Read(data)
		text := enc("enum", prefix, p.v, p.n, data)
		dec("enum", text)
		if prefix == bscript.PrefixScript {
			val("enum", text)
		}
		if len(data) > 0 && len(data) < 40 {
			valid = append(valid, text)
		}
	}
	// out-of-range fields must give the error text
	for _, p := range []pair{{0, 1}, {1, 0}, {256, 1}, {1, 256}, {0, 0}, {1000, 1000}} {
		text := enc("range", bscript.PrefixScript, p.v, p.n, []byte{1, 2, 3})
		dec("range", text)
	}
	// single-character corruptions at every position
	alphabet := []byte("0123456789abcdefABCDEFg:z +-.xX_,")
	rng.Shuffle(len(valid), func(i, j int) { valid[i], valid[j] = valid[j], valid[i] })
	// every second base text is one the decoder accepts, whatever field layout it implements
	// (version == network in 1..9): a corruption of such a text can only be rejected for its own sake
	var easy []string
	for v := 1; v <= 9; v++ {
		data := make([]byte, 1+rng.Intn(30))
		rng.Read(data)
		easy = append(easy, enc("enum-eq", []string{bscript.PrefixScript, bscript.PrefixTemplate}[v%2], v, v, data))
	}
	rng.Shuffle(len(easy), func(i, j int) { easy[i], easy[j] = easy[j], easy[i] })
	for i := 0; i < len(valid) && i/2 < len(easy); i += 2 {
		valid[i] = easy[i/2]
	}
	for i := 0; i < len(valid) && i < *nCorrupt; i++ {
		t := []byte(valid[i])
		for pos := range t {
			if i < 3 {
				for _, c := range []byte("+- .x") {
					if c == t[pos] {
						continue
					}
					m := append([]byte{}, t...)
					m[pos] = c
					dec("corrupt", string(m))
					val("corrupt", string(m))
				}
			}
			for k := 0; k < 3; k++ {
				c := alphabet[rng.Intn(len(alphabet))]
				if c == t[pos] {
					continue
				}
				m := append([]byte{}, t...)
				m[pos] = c
				dec("corrupt", string(m))
				if k == 0 {
					val("corrupt", string(m))
				}
			}
		}
		// one character inserted before / deleted at every position (length parity changes)
		for pos := 0; pos <= len(t); pos++ {
			for _, c := range []byte{'0', 'a', alphabet[rng.Intn(len(alphabet))]} {
				m := append(append(append([]byte{}, t[:pos]...), c), t[pos:]...)
				dec("corrupt-ins", string(m))
				if c == '0' {
					val("corrupt-ins", string(m))
				}
			}
			if pos < len(t) {
				m := append(append([]byte{}, t[:pos]...), t[pos+1:]...)
				dec("corrupt-del", string(m))
			}
		}
		// truncation / extension
		dec("corrupt", string(t[:len(t)-1]))
		dec("corrupt", string(t)+"0")
		dec("corrupt", string(t[1:]))
	}
	for _, s := range []string{"", ":", "bitcoin-script:", "bitcoin-script:0101", "bitcoin-script:010100000000", ":010100000000aa", "x:0101zz00000000"} {
		dec("malformed", s)
		val("malformed", "bitcoin-script:"+s)
	}
	return tr.close()
}
