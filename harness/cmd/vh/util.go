package main

import (
	"bufio"
	"crypto/sha256"
	"encoding/hex"
	"encoding/json"
	"fmt"
	"golang.org/x/crypto/ripemd160"
	"math/rand"
	"os"
	"strconv"
)

// Ev is one trace event.
type Ev map[string]interface{}

// Trace writes NDJSON events.
type Trace struct {
	f *os.File
	w *bufio.Writer
	n int
}

func newTrace(path string) (*Trace, error) {
	f, err := os.Create(path)
	if err != nil {
		return nil, err
	}
	return &Trace{f: f, w: bufio.NewWriterSize(f, 1<<20)}, nil
}

func (t *Trace) emit(e Ev) {
	b, err := json.Marshal(e)
	if err != nil {
		panic(err)
	}
	t.w.Write(b)
	t.w.WriteByte('\n')
	t.n++
}

func (t *Trace) close() error {
	if err := t.w.Flush(); err != nil {
		return err
	}
	return t.f.Close()
}

// ints renders bytes the way TLC can read them (a JSON array of 0..255); never null.
func ints(b []byte) []int {
	out := make([]int, len(b))
	for i, x := range b {
		out[i] = int(x)
	}
	return out
}

func unints(v interface{}) []byte {
	a, _ := v.([]interface{})
	out := make([]byte, len(a))
	for i, x := range a {
		out[i] = byte(int(x.(float64)))
	}
	return out
}

func str(b []int) string {
	out := make([]byte, len(b))
	for i, x := range b {
		out[i] = byte(x)
	}
	return string(out)
}

func seedFromEnv() int64 {
	s, err := strconv.ParseInt(os.Getenv("VERIF_SEED"), 10, 64)
	if err != nil {
		return 1
	}
	return s
}

func newRand(salt int64) *rand.Rand { return rand.New(rand.NewSource(seedFromEnv()*1000003 + salt)) }

func readNDJSON(path string) ([]map[string]interface{}, error) {
	f, err := os.Open(path)
	if err != nil {
		return nil, err
	}
	defer f.Close()
	var out []map[string]interface{}
	sc := bufio.NewScanner(f)
	sc.Buffer(make([]byte, 1<<20), 1<<28)
	for sc.Scan() {
		if len(sc.Bytes()) == 0 {
			continue
		}
		var m map[string]interface{}
		if err := json.Unmarshal(sc.Bytes(), &m); err != nil {
			return nil, err
		}
		out = append(out, m)
	}
	return out, sc.Err()
}

// guard runs f and reports a panic as a value ("outcome": "panic").
func guard(f func()) (panicked bool, msg string) {
	defer func() {
		if r := recover(); r != nil {
			panicked = true
			msg = fmt.Sprint(r)
		}
	}()
	f()
	return false, ""
}

func num(v interface{}) int { return int(v.(float64)) }

func hexDecode(s string) ([]byte, error) { return hex.DecodeString(s) }

// hash160 with the standard library / x/crypto (not go-bt's own helper)
func hash160(b []byte) []byte {
	s := sha256.Sum256(b)
	r := ripemd160.New()
	r.Write(s[:])
	return r.Sum(nil)
}

// roundTripJSON turns an event into what a JSON reader would see (float64 numbers, []interface{}).
func roundTripJSON(e Ev) map[string]interface{} {
	b, err := json.Marshal(e)
	if err != nil {
		panic(err)
	}
	var m map[string]interface{}
	if err := json.Unmarshal(b, &m); err != nil {
		panic(err)
	}
	return m
}
