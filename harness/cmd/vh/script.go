package main

import (
	"bytes"
	"encoding/json"
	"flag"
	"os"
	"path/filepath"

	"github.com/libsv/go-bt/v2/bscript"
	"github.com/libsv/go-bt/v2/bscript/interpreter"
)

func init() { register("script", scriptCmd) }

func partsInts(p [][]byte) [][]int {
	out := make([][]int, len(p))
	for i, x := range p {
		out[i] = ints(x)
	}
	return out
}

func scriptEvent(src string, s []byte) Ev {
	e := Ev{"ev": "script", "src": src, "s": ints(s)}
	p, msg := guard(func() {
		parts, err := bscript.DecodeParts(append([]byte{}, s...))
		dp := Ev{"ok": err == nil, "parts": [][]int{}}
		if err == nil {
			dp["parts"] = partsInts(parts)
		}
		e["dp"] = dp
		parser := interpreter.DefaultOpcodeParser{}
		ps, err := parser.Parse(bscript.NewFromBytes(append([]byte{}, s...)))
		pe := Ev{"ok": err == nil, "toks": []Ev{}, "unparse": []int{}}
		if err == nil {
			toks := make([]Ev, 0, len(ps))
			for _, po := range ps {
				toks = append(toks, Ev{"op": int(po.Value()), "data": ints(po.Data)})
			}
			pe["toks"] = toks
			if up, err := parser.Unparse(ps); err == nil {
				pe["unparse"] = ints(*up)
			} else {
				pe["unparse"], pe["unparseErr"] = []int{}, err.Error()
			}
		}
		e["parse"] = pe
		sc := bscript.NewFromBytes(append([]byte{}, s...))
		if h, err := bscript.NewFromHexString(sc.String()); err == nil {
			e["hexrt"] = ints(*h)
		} else {
			e["hexrt"] = []int{-1}
		}
		e["jsonrt"] = []int{-1}
		if jb, err := json.Marshal(sc); err == nil {
			// the rendering is decoded twice from the same buffer: a decoder may neither modify nor
			// retain its input, so both results are the script and the buffer is what it was
			keep := append([]byte{}, jb...)
			var back, again bscript.Script
			if json.Unmarshal(jb, &back) == nil && json.Unmarshal(jb, &again) == nil && bytes.Equal(jb, keep) && bytes.Equal(back, again) {
				e["jsonrt"] = ints(again)
			}
		}
		asm := Ev{"ok": false, "rt": []int{}}
		if a, err := sc.ToASM(); err == nil {
			asm["text"] = a
			if back, err := bscript.NewFromASM(a); err == nil {
				asm["ok"], asm["rt"] = true, ints(*back)
			}
		}
		e["asm"] = asm
	})
	if p {
		e["ev"], e["panic"] = "panic", msg
	}
	return e
}

func encEvent(src string, items [][]byte) Ev {
	e := Ev{"ev": "encparts", "src": src, "items": partsInts(items)}
	p, msg := guard(func() {
		enc, err := bscript.EncodeParts(items)
		e["ok"], e["enc"] = err == nil, ints(enc)
		d := Ev{"ok": false, "parts": [][]int{}}
		if parts, err := bscript.DecodeParts(enc); err == nil {
			d = Ev{"ok": true, "parts": partsInts(parts)}
		}
		e["dec"] = d
	})
	if p {
		e["ev"], e["panic"] = "panic", msg
	}
	return e
}

func loadVectorScripts(repo string) [][]byte {
	var out [][]byte
	for _, name := range []string{"sighash_bip143.json", "sighash_legacy.json"} {
		var rows [][]interface{}
		b, err := os.ReadFile(filepath.Join(repo, "bscript/interpreter/data", name))
		if err != nil || json.Unmarshal(b, &rows) != nil {
			continue
		}
		for _, r := range rows {
			if len(r) == 5 {
				if s, ok := r[1].(string); ok {
					if bb, err := hexDecode(s); err == nil {
						out = append(out, bb)
					}
				}
			}
		}
	}
	return out
}

func scriptCmd(args []string) error {
	fs := flag.NewFlagSet("script", flag.ExitOnError)
	out := fs.String("out", "script.ndjson", "trace file")
	casesPath := fs.String("cases", "", "cases: s / items")
	n := fs.Int("n", 500, "random scripts")
	repo := fs.String("repo", "/repo", "repository root")
	only := fs.Bool("only", false, "cases only")
	fs.Parse(args)
	tr, err := newTrace(*out)
	if err != nil {
		return err
	}
	if *casesPath != "" {
		cs, err := readNDJSON(*casesPath)
		if err != nil {
			return err
		}
		for _, c := range cs {
			if c["mode"] == "items" {
				var items [][]byte
				for _, x := range c["items"].([]interface{}) {
					items = append(items, unints(x))
				}
				tr.emit(encEvent("tlc", items))
			} else {
				tr.emit(scriptEvent("tlc", unints(c["s"])))
			}
		}
	}
	if !*only {
		rng := newRand(13)
		lens := []int{1, 2, 74, 75, 76, 77, 254, 255, 256, 257, 65535, 65536}
		for i := 0; i < *n; i++ {
			// item lists on the push boundaries
			k := 1 + rng.Intn(3)
			var items [][]byte
			for j := 0; j < k; j++ {
				l := lens[rng.Intn(len(lens)-2)]
				if i%60 == 0 {
					l = lens[rng.Intn(len(lens))]
				}
				items = append(items, randBytes(rng, l))
			}
			tr.emit(encEvent("gen", items))
			// the encoded list as a script, truncated at every interesting position
			enc, _ := bscript.EncodeParts(items)
			if len(enc) < 3000 {
				tr.emit(scriptEvent("gen-enc", enc))
				for _, cut := range []int{1, 2, 3, len(enc) - 1, len(enc) / 2} {
					if cut > 0 && cut < len(enc) {
						tr.emit(scriptEvent("gen-trunc", enc[:cut]))
					}
				}
			}
			// random opcode / push mixes
			var s []byte
			for t := rng.Intn(8); t > 0; t-- {
				switch rng.Intn(6) {
				case 0:
					s = append(s, byte(rng.Intn(256)))
				case 1:
					d := randBytes(rng, 2+rng.Intn(80))
					p, _ := bscript.PushDataPrefix(d)
					s = append(append(s, p...), d...)
				case 2:
					d := randBytes(rng, rng.Intn(5))
					s = append(append(s, 0x4c, byte(len(d))), d...) // non-minimal PUSHDATA1
				case 3:
					s = append(s, []byte{0x00, 0x4f, 0x51, 0x60, 0x61, 0x63, 0x68, 0x76, 0x87, 0xac, 0xae, 0xb1, 0xba, 0xff}[rng.Intn(14)])
				case 4:
					s = append(s, 0x6a)
				default:
					d := randBytes(rng, 1)
					s = append(append(s, 1), d...)
				}
			}
			tr.emit(scriptEvent("gen-mix", s))
			if len(s) > 1 {
				tr.emit(scriptEvent("gen-mix-trunc", s[:rng.Intn(len(s))]))
			}
		}
		// pushes on the 2-byte / 4-byte length boundary as scripts (PUSHDATA2 max, PUSHDATA4 min),
		// and PUSHDATA4 forms of short data
		for _, l := range []int{65535, 65536, 65537} {
			enc, _ := bscript.EncodeParts([][]byte{randBytes(rng, l)})
			tr.emit(scriptEvent("gen-big", enc))
			tr.emit(scriptEvent("gen-big-trunc", enc[:len(enc)-1]))
			d := randBytes(rng, l)
			tr.emit(scriptEvent("gen-big", append(append([]byte{0x51, 0x4e, byte(l), byte(l >> 8), byte(l >> 16), 0}, d...), 0x87)))
		}
		for _, l := range []int{0, 1, 75, 76, 255, 256} {
			d := randBytes(rng, l)
			tr.emit(scriptEvent("gen-pd4", append([]byte{0x4e, byte(l), byte(l >> 8), 0, 0}, d...)))
			tr.emit(scriptEvent("gen-pd2", append([]byte{0x4d, byte(l), byte(l >> 8)}, d...)))
		}
		// a standard template followed by an OP_RETURN payload (not a data script: it does not *start* with OP_RETURN),
		// and pushes of exactly 254 / 255 / 256 bytes in their PUSHDATA1 / PUSHDATA2 forms
		p2pkh := *p2pkhScript(0x42)
		for _, tail := range [][]byte{{0x6a}, {0x6a, 0x02, 0x61, 0x70}, {0x6a, 0x03, 0x61, 0x70, 0x70, 0x04, 0x74, 0x65, 0x78, 0x74}, {0x6a, 0x75, 0x51},
			{0x6a, 0x05, 1, 2, 3, 4, 5, 0x06, 1, 2, 3, 4, 5, 6}, {0x6a, 0x01, 0x07}} {
			tr.emit(scriptEvent("gen-tmpl-return", append(append([]byte{}, p2pkh...), tail...)))
			tr.emit(scriptEvent("gen-tmpl-return", append([]byte{0x21, 2, 1, 2, 3, 4, 5, 6, 7, 8, 9, 10, 11, 12, 13, 14, 15, 16, 17, 18, 19, 20, 21, 22, 23, 24, 25, 26, 27, 28, 29, 30, 31, 32, 0xac}, tail...)))
		}
		for _, l := range []int{254, 255, 256} {
			d := randBytes(rng, l)
			if l <= 255 {
				tr.emit(scriptEvent("gen-pd1max", append([]byte{0x4c, byte(l)}, d...)))
				tr.emit(scriptEvent("gen-pd1max", append(append([]byte{0x00, 0x6a, 0x4c, byte(l)}, d...), 0x51)))
			}
			tr.emit(scriptEvent("gen-pd1max", append([]byte{0x4d, byte(l), byte(l >> 8)}, d...)))
		}
		// every single opcode, alone and next to a multi-byte push (ASM names of all 256 byte values)
		for op := 0; op < 256; op++ {
			tr.emit(scriptEvent("allops", []byte{byte(op)}))
			tr.emit(scriptEvent("allops", []byte{0x02, 0xab, 0xcd, byte(op)}))
			tr.emit(scriptEvent("allops", []byte{byte(op), 0x03, 0x01, 0x02, 0x03, byte(op)}))
		}
		vs := loadVectorScripts(*repo)
		rng.Shuffle(len(vs), func(i, j int) { vs[i], vs[j] = vs[j], vs[i] })
		for i := 0; i < len(vs) && i < *n; i++ {
			tr.emit(scriptEvent("vector", vs[i]))
		}
	}
	return tr.close()
}
