package main

import (
	"encoding/hex"
	"flag"

	"github.com/libsv/go-bk/bec"
	"github.com/libsv/go-bt/v2"
	"github.com/libsv/go-bt/v2/bscript"
)

func init() { register("addr", addrCmd) }

func deriveEvent(src string, key []byte, h []byte, mainnet bool) Ev {
	e := Ev{"ev": "derive", "src": src, "key": ints(key), "h": ints(h), "mainnet": mainnet, "addr": []int{}, "fromKey": []int{}, "fromHash": []int{},
		"fromAddr": Ev{"ok": false, "s": []int{}}, "pkh": Ev{"ok": false, "h": []int{}}, "addrs": [][]int{}, "validate": false,
		"fromString": Ev{"ok": false, "pkh": []int{}}}
	p, msg := guard(func() {
		var a *bscript.Address
		if len(key) > 0 {
			a, _ = bscript.NewAddressFromPublicKeyString(hex.EncodeToString(key), mainnet)
			if s, err := bscript.NewP2PKHFromPubKeyBytes(key); err == nil {
				e["fromKey"] = ints(*s)
			}
			if pk, err := bec.ParsePubKey(key, bec.S256()); err == nil {
				if a2, err := bscript.NewAddressFromPublicKey(pk, mainnet); err != nil || a == nil || a2.AddressString != a.AddressString {
					e["fromKey"] = []int{}
				}
			}
		} else {
			a, _ = bscript.NewAddressFromPublicKeyHash(h, mainnet)
		}
		if a == nil {
			return
		}
		e["addr"] = ints([]byte(a.AddressString))
		if s, err := bscript.NewP2PKHFromPubKeyHash(h); err == nil {
			e["fromHash"] = ints(*s)
			if hh, err := s.PublicKeyHash(); err == nil {
				e["pkh"] = Ev{"ok": true, "h": ints(hh)}
			}
			if as, err := s.Addresses(); err == nil {
				out := [][]int{}
				for _, x := range as {
					out = append(out, ints([]byte(x)))
				}
				e["addrs"] = out
			}
		}
		if s, err := freshP2PKHFromAddress(a.AddressString); err == nil {
			e["fromAddr"] = Ev{"ok": true, "s": ints(*s)}
		}
		ok, _ := bscript.ValidateAddress(a.AddressString)
		e["validate"] = ok
		if b, err := bscript.NewAddressFromString(a.AddressString); err == nil {
			pk, _ := hex.DecodeString(b.PublicKeyHash)
			e["fromString"] = Ev{"ok": true, "pkh": ints(pk)}
		}
	})
	if p {
		e["ev"], e["panic"] = "panic", msg
	}
	return e
}

// freshP2PKHFromAddress builds the script, lets the holder of that result edit it in place and append
// to it, and builds it again: what is reported is the second result (every call must give the script).
func freshP2PKHFromAddress(addr string) (*bscript.Script, error) {
	first, err := bscript.NewP2PKHFromAddress(addr)
	if err != nil {
		return nil, err
	}
	for i := range *first {
		(*first)[i] ^= 0xff
	}
	_ = append(*first, 0xee, 0xee, 0xee)
	return bscript.NewP2PKHFromAddress(addr)
}

func acceptEvent(src string, s string) Ev {
	e := Ev{"ev": "accept", "src": src, "s": ints([]byte(s)), "validate": false, "fromString": Ev{"ok": false, "pkh": []int{}},
		"fromAddr": Ev{"ok": false, "s": []int{}}, "payTo": false, "changeTo": false}
	p, msg := guard(func() {
		ok, _ := bscript.ValidateAddress(s)
		e["validate"] = ok
		if a, err := bscript.NewAddressFromString(s); err == nil {
			pk, _ := hex.DecodeString(a.PublicKeyHash)
			e["fromString"] = Ev{"ok": true, "pkh": ints(pk)}
		}
		if sc, err := freshP2PKHFromAddress(s); err == nil {
			e["fromAddr"] = Ev{"ok": true, "s": ints(*sc)}
		}
		tx := bt.NewTx()
		addInput(tx, 1, 0, 100000, p2pkhScript(9))
		e["payTo"] = tx.PayToAddress(s, 1000) == nil
		e["changeTo"] = tx.ChangeToAddress(s, bt.NewFeeQuote()) == nil
	})
	if p {
		e["ev"], e["panic"] = "panic", msg
	}
	return e
}

const b58alphabet = "123456789ABCDEFGHJKLMNPQRSTUVWXYZabcdefghijkmnopqrstuvwxyz"

func addrCmd(args []string) error {
	fs := flag.NewFlagSet("addr", flag.ExitOnError)
	out := fs.String("out", "addr.ndjson", "trace file")
	casesPath := fs.String("cases", "", "cases: s (ascii)")
	n := fs.Int("n", 300, "random keys / hashes")
	typos := fs.Int("typos", 10, "valid addresses whose typo neighbourhood is tried")
	fs.Parse(args)
	tr, err := newTrace(*out)
	if err != nil {
		return err
	}
	if *casesPath != "" {
		cs, err := readNDJSON(*casesPath)
		if err != nil {
			return err
		}
		for _, c := range cs {
			tr.emit(acceptEvent("replay", string(unints(c["s"]))))
		}
		return tr.close()
	}
	rng := newRand(15)
	var valid []string
	edges := [][]byte{make([]byte, 20), bytesRepeat(0xff, 20), append(make([]byte, 10), bytesRepeat(7, 10)...), append([]byte{0, 0, 1}, bytesRepeat(0xee, 17)...)}
	// 0..4 leading zero bytes x the first significant byte on digit-count boundaries of the Base58 expansion
	for z := 0; z <= 4; z++ {
		for _, b := range []byte{0x01, 0x7f, 0x80, 0xd5, 0xd6, 0xd7, 0xff} {
			for _, fill := range []byte{0x00, 0xff} {
				h := make([]byte, 20)
				h[z] = b
				for k := z + 1; k < 20; k++ {
					h[k] = fill
				}
				edges = append(edges, h)
			}
		}
	}
	for i := 0; i < *n+2*len(edges); i++ {
		mainnet := i%2 == 0
		var key, h []byte
		if i < 2*len(edges) {
			h, mainnet = edges[i%len(edges)], i < len(edges) // every edge hash on both networks
		} else if i%3 == 0 {
			h = randBytes(rng, 20)
		} else {
			k, _ := bec.NewPrivateKey(bec.S256())
			key = k.PubKey().SerialiseCompressed()
			h = hash160(key)
		}
		e := deriveEvent("gen", key, h, mainnet)
		tr.emit(e)
		if a, ok := e["addr"].([]int); ok && len(a) > 0 {
			valid = append(valid, str(a))
		}
	}
	for _, a := range valid {
		tr.emit(acceptEvent("valid", a))
	}
	// typo neighbourhoods: addresses of both networks in turn (main: leading '1', test: 'm' / 'n')
	var mains, tests []string
	for _, a := range valid {
		if a[0] == '1' {
			mains = append(mains, a)
		} else {
			tests = append(tests, a)
		}
	}
	var bases []string
	for k := 0; k < len(mains) || k < len(tests); k++ {
		if k < len(tests) {
			bases = append(bases, tests[k])
		}
		if k < len(mains) {
			bases = append(bases, mains[k])
		}
	}
	for i := 0; i < len(bases) && i < *typos; i++ {
		a := bases[i]
		for pos := 0; pos < len(a); pos++ {
			for k := 0; k < len(b58alphabet); k++ {
				if b58alphabet[k] != a[pos] && (rng.Intn(4) == 0 || i < 2) {
					tr.emit(acceptEvent("subst", a[:pos]+string(b58alphabet[k])+a[pos+1:]))
				}
			}
			if pos+1 < len(a) && a[pos] != a[pos+1] {
				tr.emit(acceptEvent("transpose", a[:pos]+string(a[pos+1])+string(a[pos])+a[pos+2:]))
			}
			tr.emit(acceptEvent("delete", a[:pos]+a[pos+1:]))
			tr.emit(acceptEvent("insert", a[:pos]+string(b58alphabet[rng.Intn(58)])+a[pos:]))
			tr.emit(acceptEvent("insert1", a[:pos]+"1"+a[pos:]))
		}
		for _, bad := range []string{"0", "O", "I", "l", " ", "+", "/"} {
			pos := rng.Intn(len(a))
			tr.emit(acceptEvent("nonb58", a[:pos]+bad+a[pos+1:]))
		}
		tr.emit(acceptEvent("pad", "1"+a))
		tr.emit(acceptEvent("pad", "11"+a))
		if a[0] == '1' {
			tr.emit(acceptEvent("unpad", a[1:]))
		}
	}
	// wrong version bytes / lengths with a *correct* checksum
	for i := 0; i < *n/3+5; i++ {
		ver := []byte{5, 0xc4, 1, 0x6e, 0x70, 0x80, 0xff}[rng.Intn(7)]
		l := []int{20, 20, 19, 21, 0, 32}[rng.Intn(6)]
		body := append([]byte{ver}, randBytes(rng, l)...)
		tr.emit(acceptEvent("version-or-length", bscript.Base58EncodeMissingChecksum(body)))
		good := append([]byte{[]byte{0, 0x6f}[rng.Intn(2)]}, randBytes(rng, l)...)
		tr.emit(acceptEvent("length", bscript.Base58EncodeMissingChecksum(good)))
	}
	for _, s := range []string{"", "1", "11111111111111111111111111", "bitcoin", "1A1zP1eP5QGefi2DMPTfTL5SLmv7DivfNa", "1A1zP1eP5QGefi2DMPTfTL5SLmv7DivfNb"} {
		tr.emit(acceptEvent("misc", s))
	}
	return tr.close()
}

func bytesRepeat(b byte, n int) []byte {
	out := make([]byte, n)
	for i := range out {
		out[i] = b
	}
	return out
}
