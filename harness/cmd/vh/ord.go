package main

import (
	"bytes"
	"context"
	"encoding/hex"
	"flag"

	"github.com/libsv/go-bk/bec"
	"github.com/libsv/go-bt/v2"
	"github.com/libsv/go-bt/v2/bscript"
	"github.com/libsv/go-bt/v2/bscript/interpreter"
	"github.com/libsv/go-bt/v2/ord"
	"github.com/libsv/go-bt/v2/unlocker"
)

func init() { register("ord", ordCmd) }

type party struct {
	key    *bec.PrivateKey
	script *bscript.Script
}

func newParty() party {
	k, _ := bec.NewPrivateKey(bec.S256())
	s, _ := bscript.NewP2PKHFromPubKeyBytes(k.PubKey().SerialiseCompressed())
	return party{k, s}
}

func (p party) unlocker() *bt.Unlocker {
	var u bt.Unlocker = &unlocker.Simple{PrivateKey: p.key}
	return &u
}

// verifyInputs runs the real interpreter on every input against the output it spends.
func verifyInputs(tx *bt.Tx, prev map[string]*bt.Output) []bool {
	out := make([]bool, len(tx.Inputs))
	for i, in := range tx.Inputs {
		po := prev[hex.EncodeToString(in.PreviousTxID())+":"+string(rune('0'+in.PreviousTxOutIndex))]
		if po == nil {
			continue
		}
		p, _ := guard(func() {
			err := interpreter.NewEngine().Execute(interpreter.WithTx(tx, i, po), interpreter.WithForkID(), interpreter.WithAfterGenesis())
			out[i] = err == nil
		})
		if p {
			out[i] = false
		}
	}
	return out
}

func ordCmd(args []string) error {
	fs := flag.NewFlagSet("ord", flag.ExitOnError)
	out := fs.String("out", "ord.ndjson", "trace file")
	casesPath := fs.String("cases", "", "TLC cases (flow, price, us, q)")
	n := fs.Int("n", 100, "random scenarios per flow")
	fs.Parse(args)
	tr, err := newTrace(*out)
	if err != nil {
		return err
	}
	rng := newRand(20)

	run := func(src, flow string, price int, us []int, q quote, sx int) {
		seller, buyer := newParty(), newParty()
		// the script the seller wants to be paid to: P2PKH, optionally followed by sx bytes
		pay := bscript.Script(append(append([]byte{}, *seller.script...), bytes.Repeat([]byte{0x61}, sx)...))
		payS := &pay
		dummyS, changeS, buyerOrdS := p2pkhScript(0xd1), p2pkhScript(0xc1), p2pkhScript(0xb1)
		ordScript := inscriptionScript(seller.key, 12)
		ordUTXO := &bt.UTXO{TxID: bytes.Repeat([]byte{0x0a}, 32), Vout: 0, LockingScript: ordScript, Satoshis: 1}
		prev := map[string]*bt.Output{hex.EncodeToString(ordUTXO.TxID) + ":0": {Satoshis: 1, LockingScript: ordScript}}
		var utxos []*bt.UTXO
		sameFundingTx := (price+len(us)+sx)%2 == 1 // a function of the scenario, so that replays take the same path
		for i, v := range us {
			u := &bt.UTXO{TxID: bytes.Repeat([]byte{byte(0x10 + i)}, 32), Vout: 0, LockingScript: buyer.script, Satoshis: uint64(v), Unlocker: buyer.unlocker()}
			if sameFundingTx {
				// the buyer's coins are outputs 1, 2, ... of one funding transaction (the usual way dummies are made)
				u.TxID, u.Vout = bytes.Repeat([]byte{0x10}, 32), uint32(1+i)
			}
			utxos = append(utxos, u)
			prev[hex.EncodeToString(u.TxID)+":"+string(rune('0'+u.Vout))] = &bt.Output{Satoshis: uint64(v), LockingScript: buyer.script}
		}
		e := Ev{"ev": "ord", "src": src, "flow": flow, "price": price, "us": us, "q": q.ev(), "ok": false, "valid": []bool{}, "sellerSlen": len(*payS),
			"tx": Ev{"ins": []Ev{}, "outs": []Ev{}}}
		var tx *bt.Tx
		var ferr error
		p, msg := guard(func() {
			ctx := context.Background()
			switch flow {
			case "list", "list2d":
				pstx, err := ord.ListOrdinalForSale(ctx, &ord.ListOrdinalArgs{
					SellerReceiveOutput: &bt.Output{Satoshis: uint64(price), LockingScript: payS},
					OrdinalUTXO:         ordUTXO, OrdinalUnlocker: &unlocker.Simple{PrivateKey: seller.key}})
				if err != nil {
					ferr = err
					return
				}
				a := &ord.AcceptListingArgs{PSTx: pstx, UTXOs: append([]*bt.UTXO{}, utxos...), BuyerReceiveOrdinalScript: buyerOrdS,
					DummyOutputScript: dummyS, ChangeScript: changeS, FQ: q.fq()}
				v := &ord.ValidateListingArgs{ListedOrdinalUTXO: ordUTXO}
				if flow == "list" {
					tx, ferr = ord.AcceptOrdinalSaleListing(ctx, v, a)
				} else {
					tx, ferr = ord.AcceptOrdinalSaleListing2Dummies(ctx, v, a)
				}
			case "bid":
				pstx, err := ord.MakeBidToBuy1SatOrdinal(ctx, &ord.MakeBidArgs{BidAmount: uint64(price), OrdinalTxID: hex.EncodeToString(ordUTXO.TxID), OrdinalVOut: 0,
					BidderUTXOs: append([]*bt.UTXO{}, utxos...), BuyerReceiveOrdinalScript: buyerOrdS, DummyOutputScript: dummyS, ChangeScript: changeS, FQ: q.fq()})
				if err != nil {
					ferr = err
					return
				}
				tx, ferr = ord.AcceptBidToBuy1SatOrdinal(ctx, &ord.ValidateBidArgs{OrdinalUTXO: ordUTXO, BidAmount: uint64(price), ExpectedFQ: q.fq()},
					&ord.AcceptBidArgs{PSTx: pstx, SellerReceiveScript: payS, OrdinalUnlocker: &unlocker.Simple{PrivateKey: seller.key}})
			case "bid2d":
				pstx, err := ord.MakeBidToBuy1SatOrdinal2Dummies(ctx, &ord.MakeBid2DArgs{BidAmount: uint64(price), OrdinalTxID: hex.EncodeToString(ordUTXO.TxID), OrdinalVOut: 0,
					BidderUTXOs: append([]*bt.UTXO{}, utxos...), BuyerReceiveOrdinalScript: buyerOrdS, DummyOutputScript: dummyS, ChangeScript: changeS, FQ: q.fq()})
				if err != nil {
					ferr = err
					return
				}
				pu := []*bt.UTXO{}
				for _, in := range pstx.Inputs {
					if bytes.Equal(in.PreviousTxID(), ordUTXO.TxID) {
						pu = append(pu, ordUTXO)
						continue
					}
					for _, u := range utxos {
						if bytes.Equal(u.TxID, in.PreviousTxID()) && u.Vout == in.PreviousTxOutIndex {
							pu = append(pu, u)
						}
					}
				}
				tx, ferr = ord.AcceptBidToBuy1SatOrdinal2Dummies(ctx, &ord.ValidateBid2DArgs{PreviousUTXOs: pu, BidAmount: uint64(price), ExpectedFQ: q.fq()},
					&ord.AcceptBid2DArgs{PSTx: pstx, SellerReceiveOrdinalScript: payS, OrdinalUnlocker: &unlocker.Simple{PrivateKey: seller.key}})
			}
		})
		if p {
			e["ev"], e["panic"] = "panic", msg
			tr.emit(e)
			return
		}
		if ferr != nil || tx == nil {
			if ferr != nil {
				e["err"] = ferr.Error()
			}
			tr.emit(e)
			return
		}
		e["ok"] = true
		ins := []Ev{}
		for _, in := range tx.Inputs {
			isOrd := bytes.Equal(in.PreviousTxID(), ordUTXO.TxID)
			po := prev[hex.EncodeToString(in.PreviousTxID())+":"+string(rune('0'+in.PreviousTxOutIndex))]
			owner, sats := "buyer", 0
			if isOrd {
				owner = "seller"
			}
			if po != nil {
				sats = int(po.Satoshis)
			}
			ul := 0
			if in.UnlockingScript != nil {
				ul = len(*in.UnlockingScript)
			}
			ins = append(ins, Ev{"owner": owner, "sats": sats, "ord": isOrd, "ulen": ul, "kind": map[bool]string{true: "inscr", false: "p2pkh"}[isOrd]})
		}
		outs := []Ev{}
		for _, o := range tx.Outputs {
			role := "other"
			switch {
			case o.LockingScript.Equals(dummyS):
				role = "dummy"
			case o.LockingScript.Equals(payS):
				role = "seller"
			case o.LockingScript.Equals(buyerOrdS):
				role = "buyerord"
			case o.LockingScript.Equals(changeS):
				role = "change"
			}
			outs = append(outs, Ev{"role": role, "sats": int(o.Satoshis), "slen": len(*o.LockingScript), "data": o.LockingScript.IsData()})
		}
		e["tx"] = Ev{"ins": ins, "outs": outs}
		e["valid"] = verifyInputs(tx, prev)
		e["size"] = tx.Size()
		tr.emit(e)
	}

	if *casesPath != "" {
		cs, err := readNDJSON(*casesPath)
		if err != nil {
			return err
		}
		for _, c := range cs {
			qm := c["q"].(map[string]interface{})
			var us []int
			for _, x := range c["us"].([]interface{}) {
				us = append(us, num(x))
			}
			sx := 0
			if c["sx"] != nil {
				sx = num(c["sx"])
			}
			run("tlc", c["flow"].(string), num(c["price"]), us, quote{num(qm["ss"]), num(qm["sb"]), num(qm["ds"]), num(qm["db"])}, sx)
		}
	}
	for i := 0; i < *n; i++ {
		for _, flow := range []string{"list", "list2d", "bid", "bid2d"} {
			price := []int{1, 2, 546, 1000, 100000}[rng.Intn(5)]
			k := 2 + rng.Intn(3)
			var us []int
			for j := 0; j < k; j++ {
				us = append(us, []int{1, price - 1, price, price + 1, price + 10, price + 40, price + 300, price + 5000, 3, 30, 200}[rng.Intn(11)])
				if us[j] < 0 {
					us[j] = 0
				}
			}
			run("gen", flow, price, us, quotes[rng.Intn(3)], []int{0, 0, 0, 1, 10, 60, 110, 228}[rng.Intn(8)])
		}
	}
	// ---- inscriptions ------------------------------------------------------------------------------
	lens := []int{0, 1, 2, 75, 76, 255, 256, 65535, 65536}
	for i := 0; i < *n/2+len(lens)*3; i++ {
		ct := []string{"", "t", "text/plain;charset=utf-8", "image/png", string(bytes.Repeat([]byte{'x'}, 76))}[rng.Intn(5)]
		l := lens[i%len(lens)]
		if i >= len(lens)*3 {
			l = rng.Intn(400)
		}
		data := randBytes(rng, l)
		pfx := p2pkhScript(byte(i))
		if i%4 == 1 {
			// a key hash that happens to contain bytes of the envelope (OP_FALSE OP_IF push "ord" / OP_ENDIF ...)
			h := bytes.Repeat([]byte{byte(i)}, 20)
			copy(h[(i/4)%14:], []byte{0x00, 0x63, 0x03, 0x6f, 0x72, 0x64})
			pfx, _ = bscript.NewP2PKHFromPubKeyHash(h)
		}
		e := Ev{"ev": "inscribe", "ct": ints([]byte(ct)), "data": ints(data), "prefix": ints(*pfx), "script": []int{}, "outSats": 0,
			"parsed": Ev{"ok": false, "ct": []int{}, "data": []int{}, "prefix": []int{}}, "isInscr": false, "type": "", "after": []int{}, "data2": []int{}, "script2": []int{}}
		p, msg := guard(func() {
			tx := bt.NewTx()
			if err := tx.Inscribe(&bscript.InscriptionArgs{LockingScriptPrefix: pfx, Data: data, ContentType: ct}); err != nil {
				e["err"] = err.Error()
				return
			}
			s := tx.Outputs[0].LockingScript
			e["script"], e["outSats"] = ints(*s), int(tx.Outputs[0].Satoshis)
			e["isInscr"], e["type"] = s.IsP2PKHInscription(), s.ScriptType()
			if ia, err := s.ParseInscription(); err == nil {
				e["parsed"] = Ev{"ok": true, "ct": ints([]byte(ia.ContentType)), "data": ints(ia.Data), "prefix": ints(*ia.LockingScriptPrefix)}
				// a second inscription made from the parsed arguments, on another transaction:
				// the first locking script must not change
				d2 := make([]byte, len(data))
				for k := range d2 {
					d2[k] = data[k] ^ 0xff
				}
				tx2 := bt.NewTx()
				if err := tx2.Inscribe(&bscript.InscriptionArgs{LockingScriptPrefix: ia.LockingScriptPrefix, Data: d2, ContentType: ct}); err == nil {
					e["data2"], e["script2"] = ints(d2), ints(*tx2.Outputs[0].LockingScript)
				}
			}
			e["after"] = ints(*s)
		})
		if p {
			e["ev"], e["panic"] = "panic", msg
		}
		tr.emit(e)
	}
	return tr.close()
}
