//go:build verif

package main

import "github.com/libsv/go-bt/v2"

func setVerifHook(f func(method, op, on string)) { bt.VerifHook = f }
