SPECIFICATION Spec
INVARIANTS InverseOK Canonical TypoChanges
CHECK_DEADLOCK FALSE
