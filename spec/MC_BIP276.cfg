SPECIFICATION Spec
CONSTANTS
  Vals = {0, 1, 2, 9, 10, 16, 171, 255, 256}
  Alphabet = {48, 49, 97, 102, 70, 58, 103, 32, 43, 45}
INVARIANTS RoundTrip RejectsCorrupted InvalidIsError LayoutInv
CHECK_DEADLOCK FALSE
