SPECIFICATION Spec
CONSTANTS
  MaxN = 4
INVARIANTS WalkIsInOrderMatching
CHECK_DEADLOCK FALSE
