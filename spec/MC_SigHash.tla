-------------------------------- MODULE MC_SigHash --------------------------------
(* Exhaustive model for C02/C03: every model transaction shape x input index (also out of  *)
(* range) x all 256 eight-bit hash types; one Compute step per algorithm.  Structural       *)
(* properties of the preimages are invariants; every state is also emitted as a case for    *)
(* the real library.                                                                        *)
EXTENDS SigHash, TLC, Json

CONSTANTS MaxIn, MaxOut

In(n, ps, hasps, hasid, us) ==
    [txid |-> Rep(16 * n + 1, 32), vout |-> LE32(n), us |-> us, seq |-> <<255 - n, 255, 255, 255>>,
     sats |-> LE64(1000 * n + 7), ps |-> ps, hasps |-> hasps, hasid |-> hasid]
P2PKH == <<118, 169, 20>> \o Rep(17, 20) \o <<136, 172>>
InVariants(n) == {In(n, P2PKH, TRUE, TRUE, <<>>), In(n, <<>>, TRUE, TRUE, <<81>>), In(n, Rep(81, 253), TRUE, TRUE, <<>>),
                  In(n, <<>>, FALSE, TRUE, <<>>), In(n, <<118>>, TRUE, FALSE, <<>>)}
Out(n) == [sats |-> LE64(500 + n), ls |-> IF n = 2 THEN <<>> ELSE <<118, n>>]
\* input lists: the signed-input variants vary, the others are fixed
InListsAt(n, j) == {[k \in 1..n |-> IF k = j THEN v ELSE In(k, <<172>>, TRUE, TRUE, <<1, 65>>)] : v \in InVariants(j)}
InLists == UNION {UNION {InListsAt(n, j) : j \in 1..n} : n \in 1..MaxIn}
OutLists == {[k \in 1..n |-> Out(k)] : n \in 0..MaxOut}
ModelTx == {[ver |-> <<2, 0, 0, 0>>, ins |-> i, outs |-> o, lt |-> <<5, 0, 0, 128>>] : i \in InLists, o \in OutLists}

VARIABLES tx, idx, ht, res, phase
vars == <<tx, idx, ht, res, phase>>
Ht4 == <<ht, 0, 0, 0>>

Init == /\ tx \in ModelTx /\ idx \in 0..MaxIn /\ ht \in 0..255 /\ res = [ok |-> FALSE, err |-> "none"] /\ phase = "new"
Compute == /\ phase = "new" /\ phase' = "done"
           /\ res' = IF HasForkId(Ht4) THEN PreimageForkID(tx, idx, Ht4) ELSE PreimageLegacy(tx, idx, Ht4)
           /\ UNCHANGED <<tx, idx, ht>>
Next == Compute
Spec == Init /\ [][Next]_vars

Done == phase = "done"
Fork == HasForkId(Ht4)
\* ---- properties -----------------------------------------------------------------------------
ErrorsExactly == Done => (res.ok <=> (idx < Len(tx.ins) /\ tx.ins[idx + 1].hasid /\ tx.ins[idx + 1].hasps))
ForkLen == (Done /\ Fork) => ForkIDLength(tx, idx, Ht4)
ForkAcpZero == (Done /\ Fork /\ res.ok /\ Acp(Ht4)) => (res.segs[2] = Lit(Zero32) /\ res.segs[3] = Lit(Zero32))
ForkSeqZero == (Done /\ Fork /\ res.ok) => ((res.segs[3] = Lit(Zero32)) <=> (Acp(Ht4) \/ BaseT(Ht4) \in {2, 3}))
ForkOutsRule == (Done /\ Fork /\ res.ok) =>
                   ((res.segs[5] = Lit(Zero32)) <=> (IsNone(Ht4) \/ (IsSingle(Ht4) /\ idx >= Len(tx.outs))))
ForkTypeLast == (Done /\ Fork /\ res.ok) => (LET s == res.segs[6].b IN SubSeq(s, Len(s) - 3, Len(s)) = Ht4)
LegacySingleBug == (Done /\ ~Fork /\ res.ok) => (res.one <=> (IsSingle(Ht4) /\ idx >= Len(tx.outs)))
\* legacy preimage parses back (it is a transaction serialisation followed by the hash type)
LegacyParses == (Done /\ ~Fork /\ res.ok /\ ~res.one) =>
                   LET b == res.segs[1].b
                       p == ParseStream(b) IN
                   /\ p.ok /\ p.used = Len(b) - 4
                   /\ Len(p.tx.ins) = (IF Acp(Ht4) THEN 1 ELSE Len(tx.ins))
                   /\ Len(p.tx.outs) = (IF IsNone(Ht4) THEN 0 ELSE IF IsSingle(Ht4) THEN idx + 1 ELSE Len(tx.outs))
                   /\ \A k \in 1..Len(p.tx.ins) : (Acp(Ht4) \/ k = idx + 1) \/ p.tx.ins[k].us = <<>>

EmitCase == (phase = "new") => PrintT(ToJson([k |-> "case", tx |-> tx, idx |-> idx, ht |-> ht]))
=================================================================================
