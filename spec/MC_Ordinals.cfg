SPECIFICATION Spec
INVARIANTS DesignSellerProtected DesignOrdinalRouted DesignNoValueCreated EmitCase
CHECK_DEADLOCK FALSE
