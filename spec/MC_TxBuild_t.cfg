SPECIFICATION Spec
CONSTANTS
  Depth = 3
  MaxObjs = 3
INVARIANTS WireRoundTrip SizesAgree InputsWellFormed EmitSeq
PROPERTIES ErrorsAreClean PanicsAreClean OthersUntouched ChangePays CopiesEqual
CHECK_DEADLOCK FALSE
