------------------------------- MODULE DebugLifecycle ------------------------------
(* The documented debugger lifecycle as an automaton over the names of the callbacks an    *)
(* execution fired:                                                                         *)
(*   BeforeExecute                                                                          *)
(*     ( BeforeStep BeforeExecuteOpcode {stack}* [AfterExecuteOpcode] {stack}*               *)
(*       [BeforeScriptChange AfterScriptChange {stack}*] AfterStep )*                        *)
(*   AfterExecute {stack}* ( AfterSuccess | AfterError )                                     *)
(* {stack} = BeforeStackPush AfterStackPush | BeforeStackPop AfterStackPop.  On the error    *)
(* path the open step is abandoned (no AfterExecuteOpcode / AfterStep) and a failed pop may  *)
(* leave a BeforeStackPop without its AfterStackPop.  An execution rejected before a thread  *)
(* exists (malformed script, bad parameters) fires nothing.                                  *)
EXTENDS Sequences, SequencesExt, Integers, FiniteSets

\* state = [s : phase, open : "" | "push" | "pop"]
Delta(st, c) ==
    LET s == st.s  o == st.open
        To(x) == [s |-> x, open |-> ""]
        Bad == [s |-> "bad", open |-> ""]
        stackOK == s \in {"op", "postop", "postchg", "done"}
    IN
    IF s = "bad" THEN Bad
    ELSE IF o = "push" THEN (IF c = "AfterStackPush" THEN [st EXCEPT !.open = ""] ELSE Bad)
    ELSE IF o = "pop" /\ c = "AfterStackPop" THEN [st EXCEPT !.open = ""]
    ELSE IF o = "pop" /\ ~(c \in {"AfterExecute", "AfterError"}) THEN Bad
    ELSE CASE c = "BeforeStackPush" -> IF stackOK THEN [st EXCEPT !.open = "push"] ELSE Bad
           [] c = "BeforeStackPop" -> IF stackOK THEN [st EXCEPT !.open = "pop"] ELSE Bad
           [] c = "BeforeExecute" -> IF s = "start" THEN To("exec") ELSE Bad
           [] c = "BeforeStep" -> IF s = "exec" THEN To("step") ELSE Bad
           [] c = "BeforeExecuteOpcode" -> IF s = "step" THEN To("op") ELSE Bad
           [] c = "AfterExecuteOpcode" -> IF s = "op" THEN To("postop") ELSE Bad
           [] c = "BeforeScriptChange" -> IF s \in {"op", "postop"} THEN To("chg") ELSE Bad
           [] c = "AfterScriptChange" -> IF s = "chg" THEN To("postchg") ELSE Bad
           [] c = "AfterStep" -> IF s \in {"postop", "postchg"} THEN To("exec") ELSE Bad
           [] c = "AfterExecute" -> IF s \in {"exec", "step", "op", "postop", "postchg"} THEN To("done") ELSE Bad
           [] c = "AfterSuccess" -> IF s = "done" /\ o = "" THEN To("okend") ELSE Bad
           [] c = "AfterError" -> IF s = "done" THEN To("errend") ELSE Bad
           [] OTHER -> Bad

Final(calls) == FoldLeft(Delta, [s |-> "start", open |-> ""], calls).s

\* accepted, and consistent with the verdict returned
Lifecycle(calls, outcome) ==
    IF calls = <<>> THEN outcome = "err"
    ELSE (outcome = "ok" /\ Final(calls) = "okend") \/ (outcome = "err" /\ Final(calls) = "errend")

\* The snapshots handed to the opcode-level callbacks of a step name the instruction that step
\* executes: cpos[i] is the (script, opcode) position of the snapshot given to callback i, and the
\* positions seen by BeforeExecuteOpcode / AfterExecuteOpcode equal the one seen by the BeforeStep
\* that opened the step (the program counter advances only after AfterExecuteOpcode).
\* Returns 0 when consistent, else the index of the first offending callback.
OpPositions(calls, cpos) ==
    FoldLeft(LAMBDA acc, i :
                IF acc.bad # 0 THEN acc
                ELSE IF calls[i] = "BeforeStep" THEN [acc EXCEPT !.cur = cpos[i]]
                ELSE IF calls[i] \in {"BeforeExecuteOpcode", "AfterExecuteOpcode"} /\ cpos[i] # acc.cur
                     THEN [acc EXCEPT !.bad = i]
                ELSE acc,
             [cur |-> -2, bad |-> 0], [i \in 1..Len(calls) |-> i]).bad

\* a success ran every step to completion: AfterStep count = BeforeStep count
Count(calls, c) == Cardinality({i \in 1..Len(calls) : calls[i] = c})
=================================================================================
