---------------------------------- MODULE Trace_Ord ----------------------------------
(* Trace validation for C20: completed ordinals sale / bid transactions produced by the real *)
(* ord package (every input run through the real interpreter), and inscription round trips.    *)
EXTENDS TraceLib, Ordinals, ScriptTok

VARIABLE l
Ev == Trace[l]

T(e) == [ins |-> e.tx.ins, outs |-> e.tx.outs]
SpecFlow(e) == CASE e.flow = "list" -> Listing(e.price, e.us, e.q, e.sellerSlen)
                 [] e.flow = "list2d" -> Listing2D(e.price, e.us, e.q, e.sellerSlen)
                 [] e.flow = "bid" -> Bid(e.price, e.us, e.q, e.sellerSlen)
                 [] e.flow = "bid2d" -> Bid2D(e.price, e.us, e.q, e.sellerSlen)
\* roles and amounts of everything but the change output
Shape(t) == [ins |-> [k \in 1..Len(t.ins) |-> <<t.ins[k].owner, t.ins[k].sats, t.ins[k].ord>>],
             outs |-> [k \in 1..Len(SelectSeq(t.outs, LAMBDA o : o.role # "change")) |->
                         LET o == SelectSeq(t.outs, LAMBDA x : x.role # "change")[k] IN <<o.role, o.sats, o.slen>>]]

Why(e) ==
    IF ~e.ok THEN
         \* a flow the specification completes *and* that pays its fee for any signature size must not be refused
         IF SpecFlow(e).ok /\ FeePaid(SignedMax(SpecFlow(e).tx), e.q) THEN "refused" ELSE "fine"
    ELSE LET t == T(e) IN
         IF \E k \in 1..Len(e.valid) : ~e.valid[k] THEN "input-invalid"
         ELSE IF Len(e.valid) # Len(t.ins) THEN "input-invalid"
         ELSE IF ~ExactlyOneOrdinal(t) THEN "ordinal-count"
         ELSE IF ~OrdinalRouted(t) THEN "ordinal-misrouted"
         ELSE IF ~(OrdIdx(t) <= Len(t.outs) /\ t.outs[OrdIdx(t)].role = "seller" /\ t.outs[OrdIdx(t)].sats = e.price)
              THEN "seller-output"
         ELSE IF ~FeePaid(t, e.q) THEN "fee-underpaid"
         ELSE IF e.size # Sizes(t).total THEN "size"
         ELSE IF ~(SpecFlow(e).ok /\ Shape(SpecFlow(e).tx) = Shape(t)) THEN "shape"
         ELSE "fine"

\* inscriptions: the locking script is prefix + envelope, and parsing gives the parts back
Envelope(ct, data) == <<OP_0, OP_IF, 3, 111, 114, 100, OP_1>> \o PushPrefix(Len(ct)) \o ct \o <<OP_0>> \o PushPrefix(Len(data)) \o data \o <<OP_ENDIF>>
InscribeWhy(e) ==
    IF e.script # e.prefix \o Envelope(e.ct, e.data) THEN "layout"
    ELSE IF e.outSats # 1 THEN "value"
    \* frame: inscribing again from the parsed arguments leaves the first script alone
    ELSE IF e.after # e.script THEN "source-script-changed"
    ELSE IF e.parsed.ok /\ e.script2 # e.parsed.prefix \o Envelope(e.ct, e.data2) THEN "layout2"
    ELSE IF ~e.parsed.ok THEN "parse-fails"
    ELSE IF e.parsed.prefix # e.prefix THEN "prefix"
    ELSE IF e.parsed.ct # e.ct THEN (IF e.ct = <<>> THEN "empty-content-type" ELSE "content-type")
    ELSE IF e.parsed.data # e.data THEN (IF e.data = <<>> THEN "empty-data" ELSE "data")
    ELSE IF ~e.isInscr THEN "not-recognised"
    ELSE "fine"

Init == l = 1
Next == /\ l <= Len(Trace)
        /\ l' = l + 1
        /\ Mark(l)
        /\ CASE Ev.ev = "ord" -> (Why(Ev) # "fine") => Reject(l, [ev |-> "ord", why |-> Why(Ev)])
             [] Ev.ev = "inscribe" -> (InscribeWhy(Ev) # "fine") => Reject(l, [ev |-> "inscribe", why |-> InscribeWhy(Ev)])
             [] OTHER -> Reject(l, [ev |-> Ev.ev, why |-> "unknown"])
Spec == Init /\ [][Next]_l
=================================================================================
