---------------------------------- MODULE SigHash ---------------------------------
(* Signature-hash preimages of Bitcoin SV.                                                 *)
(*   FORKID  : the replay-protected (BIP143-style) digest of the BSV specification          *)
(*   Legacy  : the original Satoshi algorithm, including the SIGHASH_SINGLE "one" result    *)
(* Preimages are *symbolic byte strings*: sequences of segments                             *)
(*      [t |-> "lit", b |-> bytes]        literal bytes                                     *)
(*      [t |-> "h256d", of |-> bytes]     the 32-byte double SHA-256 of `of`                *)
(* so the specification fixes exactly which bytes are hashed without executing SHA-256;     *)
(* hash values are bound to real ones by oracle obligations (see Trace_SigHash).            *)
(*                                                                                          *)
(* tx as in TxWire, each input additionally carrying                                        *)
(*      hasid : the previous txid is present      hasps : the previous script is present    *)
(* ht4 : the hash type as 4 little-endian bytes; i : 0-based input index.                   *)
EXTENDS TxWire

Lit(b) == [t |-> "lit", b |-> b]
H256d(b) == [t |-> "h256d", of |-> b]
SegLen(s) == IF s.t = "lit" THEN Len(s.b) ELSE 32
SymLen(segs) == FoldLeft(LAMBDA a, k : a + SegLen(segs[k]), 0, Idx(Len(segs)))

BaseT(ht4) == ht4[1] % 32
Acp(ht4) == ht4[1] >= 128
HasForkId(ht4) == (ht4[1] \div 64) % 2 = 1
IsNone(ht4) == BaseT(ht4) = 2
IsSingle(ht4) == BaseT(ht4) = 3

Zero32 == Zeros(32)
One256 == <<1>> \o Zeros(31)

Outpoint(in) == in.txid \o in.vout

Err(e) == [ok |-> FALSE, err |-> e]
Ok(segs) == [ok |-> TRUE, segs |-> segs]
\* argument checks shared by both algorithms
ArgErr(tx, i) == IF i < 0 \/ i >= Len(tx.ins) THEN "NoInput"
                 ELSE IF ~tx.ins[i + 1].hasid THEN "NoPrevTxID"
                 ELSE IF ~tx.ins[i + 1].hasps THEN "NoPrevScript"
                 ELSE "none"

\* ---- FORKID ---------------------------------------------------------------------------------
HashPrevouts(tx, ht4) == IF Acp(ht4) THEN Lit(Zero32)
                         ELSE H256d(Concat([k \in 1..Len(tx.ins) |-> Outpoint(tx.ins[k])]))
HashSequence(tx, ht4) == IF Acp(ht4) \/ IsNone(ht4) \/ IsSingle(ht4) THEN Lit(Zero32)
                         ELSE H256d(Concat([k \in 1..Len(tx.ins) |-> tx.ins[k].seq]))
HashOutputs(tx, i, ht4) == IF ~IsNone(ht4) /\ ~IsSingle(ht4)
                           THEN H256d(Concat([k \in 1..Len(tx.outs) |-> SerOut(tx.outs[k])]))
                           ELSE IF IsSingle(ht4) /\ i < Len(tx.outs) THEN H256d(SerOut(tx.outs[i + 1]))
                           ELSE Lit(Zero32)

PreimageForkID(tx, i, ht4) ==
    IF ArgErr(tx, i) # "none" THEN Err(ArgErr(tx, i))
    ELSE LET in == tx.ins[i + 1] IN
         Ok(<<Lit(tx.ver), HashPrevouts(tx, ht4), HashSequence(tx, ht4),
              Lit(Outpoint(in) \o VarBytes(in.ps) \o in.sats \o in.seq),
              HashOutputs(tx, i, ht4), Lit(tx.lt \o ht4)>>)

\* ---- legacy ---------------------------------------------------------------------------------
MinusOne64 == Rep(255, 8)
LegacyIns(tx, i, ht4) ==
    LET blank(k) == [txid |-> tx.ins[k].txid, vout |-> tx.ins[k].vout,
                     script |-> IF k = i + 1 THEN tx.ins[k].ps ELSE <<>>,
                     seq |-> IF k # i + 1 /\ (IsNone(ht4) \/ IsSingle(ht4)) THEN Zeros(4) ELSE tx.ins[k].seq]
        all == [k \in 1..Len(tx.ins) |-> blank(k)]
    IN IF Acp(ht4) THEN <<all[i + 1]>> ELSE all
LegacyOuts(tx, i, ht4) ==
    IF IsNone(ht4) THEN <<>>
    ELSE IF IsSingle(ht4) THEN [k \in 1..(i + 1) |-> IF k <= i THEN [sats |-> MinusOne64, ls |-> <<>>] ELSE tx.outs[k]]
    ELSE tx.outs

SingleBug(tx, i, ht4) == IsSingle(ht4) /\ i >= Len(tx.outs)

\* the serialisation that is hashed (undefined under SingleBug)
PreimageLegacyBytes(tx, i, ht4) ==
    LET ins == LegacyIns(tx, i, ht4)
        outs == LegacyOuts(tx, i, ht4)
    IN tx.ver \o VarIntEnc(Len(ins)) \o
       Concat([k \in 1..Len(ins) |-> ins[k].txid \o ins[k].vout \o VarBytes(ins[k].script) \o ins[k].seq]) \o
       VarIntEnc(Len(outs)) \o Concat([k \in 1..Len(outs) |-> SerOut(outs[k])]) \o
       tx.lt \o ht4

\* result: Err, Ok(one literal segment) or the SINGLE constant
PreimageLegacy(tx, i, ht4) ==
    IF ArgErr(tx, i) # "none" THEN Err(ArgErr(tx, i))
    ELSE IF SingleBug(tx, i, ht4) THEN [ok |-> TRUE, one |-> TRUE, segs |-> <<Lit(One256)>>]
    ELSE [ok |-> TRUE, one |-> FALSE, segs |-> <<Lit(PreimageLegacyBytes(tx, i, ht4))>>]

\* ---- structural facts checked on the model ---------------------------------------------------
ForkIDLength(tx, i, ht4) == LET p == PreimageForkID(tx, i, ht4) IN
    p.ok => SymLen(p.segs) = 4 + 32 + 32 + 36 + VarIntLen(Len(tx.ins[i + 1].ps)) + Len(tx.ins[i + 1].ps) + 8 + 4 + 32 + 4 + 4
=================================================================================
