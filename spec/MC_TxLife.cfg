SPECIFICATION Spec
CONSTANTS
  MaxIn = 2
  MaxOut = 2
INVARIANTS SignedHavePrev EmitCase
PROPERTIES JsonPure
CHECK_DEADLOCK FALSE
