---------------------------------- MODULE MC_Fund ----------------------------------
(* Every supplier history of up to MaxReplies replies against a few starting transactions    *)
(* and quotes.  Properties of C12 as invariants / action properties of the protocol.         *)
EXTENDS Fund, TLC, Json

CONSTANT MaxReplies

U(id, sats, kind) == [id |-> id, vout |-> id, sats |-> sats, kind |-> kind]
Replies == {[kind |-> "batch", utxos |-> <<>>],
            [kind |-> "batch", utxos |-> <<U(1, 100, "p2pkh")>>],
            [kind |-> "batch", utxos |-> <<U(2, 5000, "p2pkh")>>],
            [kind |-> "batch", utxos |-> <<U(3, 700, "p2pkh"), U(4, 400, "inscr")>>],
            [kind |-> "batch", utxos |-> <<U(5, 9000, "other")>>],
            [kind |-> "noutxo", utxos |-> <<>>],
            [kind |-> "err", utxos |-> <<>>]}
Histories == UNION {[1..n -> Replies] : n \in 0..MaxReplies}
Prior == [sats |-> 300, ulen |-> 0, kind |-> "p2pkh", id |-> 9, vout |-> 0, seq |-> FinalSeq]
Starts == {[ins |-> i, outs |-> o] : i \in {<<>>, <<Prior>>},
             o \in {<<[sats |-> 1000, slen |-> 25, data |-> FALSE]>>,
                    <<[sats |-> 250, slen |-> 25, data |-> FALSE], [sats |-> 0, slen |-> 40, data |-> TRUE]>>, <<>>}}
Quotes == {[ss |-> 5, sb |-> 100, ds |-> 5, db |-> 100], [ss |-> 2, sb |-> 1, ds |-> 1, db |-> 4]}

VARIABLES fs, q, tx0, hist
vars == <<fs, q, tx0, hist>>

Init == /\ tx0 \in Starts /\ q \in Quotes /\ hist \in Histories /\ fs = FundInit(tx0, hist)
Next == fs.pc # "done" /\ fs' = FundStep(fs, q) /\ UNCHANGED <<q, tx0, hist>>
Spec == Init /\ [][Next]_vars

\* ---- C12 ---------------------------------------------------------------------------------------------
OutputsUntouched == fs.tx.outs = tx0.outs
PriorInputsKept == Len(fs.tx.ins) >= Len(tx0.ins) /\ SubSeq(fs.tx.ins, 1, Len(tx0.ins)) = tx0.ins
AppendedAreFinal == \A k \in (Len(tx0.ins) + 1)..Len(fs.tx.ins) : fs.tx.ins[k].seq = FinalSeq /\ fs.tx.ins[k].ulen = 0
SuccessCovers == (fs.pc = "done" /\ fs.outcome = "ok") => Covered(fs.tx, q)
InsufficientMeansDeficit == (fs.pc = "done" /\ fs.outcome = "insufficient") => Deficit(fs.tx, q) > 0
\* the supplier is called only while a deficit remains and is given the current deficit
OnlyWhileDeficit == [][(Len(fs'.calls) = Len(fs.calls) + 1) =>
                         (fs.deficit > 0 /\ fs.deficit = Deficit(fs.tx, q) /\ fs'.calls[Len(fs'.calls)] = fs.deficit)]_vars
NoCallAfterCovered == [][(fs.pc = "est" /\ Estimable(fs.tx) /\ Deficit(fs.tx, q) = 0) => fs'.pc = "done" /\ fs'.outcome = "ok"]_vars
Terminates == <>(fs.pc = "done")

EmitCase == (fs.pc = "done") => PrintT(ToJson([k |-> "case", tx0 |-> tx0, q |-> q, hist |-> hist, calls |-> fs.calls, outcome |-> fs.outcome]))
=================================================================================
