---------------------------------- MODULE MC_TxLife ----------------------------------
EXTENDS TxLife, TLC, Json
EmitCase == (last.op = "json") => PrintT(ToJson([k |-> "case", ins |-> ins, outs |-> outs, dialect |-> last.dialect, obj |-> last.obj]))
\* the Json action does not multiply states: `last` is the only thing it changes
=================================================================================
