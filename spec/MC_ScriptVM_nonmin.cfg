SPECIFICATION Spec
CONSTANTS
  Family = "nonmin"
INVARIANTS Total StackBound CondShape ElementBound EmitCase
PROPERTIES Terminates
CHECK_DEADLOCK FALSE
