----------------------------------- MODULE Ordinals -----------------------------------
(* 1-sat-ordinal sale and bid flows (ord package) over abstract transactions, and the        *)
(* properties a completed transaction must have (C20).                                        *)
(*   input  == [owner : "buyer" | "seller", sats, ord : BOOLEAN, ulen, kind]                   *)
(*   output == [role : "dummy" | "seller" | "buyerord" | "change" | "other", sats, slen, data] *)
(* Flows are written the way the library builds them (order of inputs and outputs, change     *)
(* through FeeMath!ChangeAlg); the properties are independent of that construction.            *)
EXTENDS FeeMath, TLC

In(owner, sats, ord, kind) == [owner |-> owner, sats |-> sats, ord |-> ord, ulen |-> 0, kind |-> kind]
Out(role, sats, slen) == [role |-> role, sats |-> sats, slen |-> slen, data |-> FALSE]
Signed(t) == [t EXCEPT !.ins = [k \in 1..Len(t.ins) |-> [t.ins[k] EXCEPT !.ulen = 106]]]

\* first position whose value exceeds the price, moved to the front (0 = none)
FirstAbove(us, price) == LET hits == {i \in 1..Len(us) : us[i] > price} IN
                         IF hits = {} THEN 0 ELSE CHOOSE i \in hits : \A j \in hits : i <= j
Reordered(us, i) == <<us[i]>> \o SubSeq(us, 1, i - 1) \o SubSeq(us, i + 1, Len(us))

WithChangeOut(t, q, slen) ==
    LET r == ChangeAlg(t, q, [kind |-> "new", slen |-> slen, data |-> FALSE, idx |-> 0]) IN
    IF ~r.ok THEN [ok |-> FALSE, why |-> "inputs"]
    ELSE [ok |-> TRUE, tx |-> [r.post EXCEPT !.outs = [k \in 1..Len(r.post.outs) |->
                                   IF k > Len(t.outs) THEN (r.post.outs[k] @@ [role |-> "change"]) ELSE t.outs[k]]]]

\* ---- the flows: result [ok, tx] or [ok |-> FALSE, why] -------------------------------------------
Listing(price, us, q, sl) ==
    IF Len(us) < 2 THEN [ok |-> FALSE, why |-> "utxos"]
    ELSE IF FirstAbove(us, price) = 0 THEN [ok |-> FALSE, why |-> "value"]
    ELSE LET u == Reordered(us, FirstAbove(us, price))
             ins == <<In("buyer", u[1], FALSE, "p2pkh"), In("seller", 1, TRUE, "inscr")>> \o
                    [k \in 1..(Len(u) - 1) |-> In("buyer", u[k + 1], FALSE, "p2pkh")]
             outs == <<Out("dummy", u[1] - price, 25), Out("seller", price, sl), Out("buyerord", 1, 25)>>
         IN WithChangeOut([ins |-> ins, outs |-> outs], q, 25)
Listing2D(price, us, q, sl) ==
    IF Len(us) < 3 THEN [ok |-> FALSE, why |-> "utxos"]
    ELSE LET ins == <<In("buyer", us[1], FALSE, "p2pkh"), In("buyer", us[2], FALSE, "p2pkh"), In("seller", 1, TRUE, "inscr")>> \o
                    [k \in 1..(Len(us) - 2) |-> In("buyer", us[k + 2], FALSE, "p2pkh")]
             outs == <<Out("dummy", us[1] + us[2], 25), Out("buyerord", 1, 25), Out("seller", price, sl)>>
         IN WithChangeOut([ins |-> ins, outs |-> outs], q, 25)

\* Bids: the bidder builds and signs (SINGLE) a transaction paying a placeholder P2PKH script;
\* the ordinal input carries no value yet.  The seller swaps in the receive script (sl bytes),
\* fills in the ordinal's value and signs it; the fee is checked on the completed transaction
\* (as repaired in /repo).  SignedMax = every unlocking script at its 107-byte bound.
SignedMax(t) == [t EXCEPT !.ins = [k \in 1..Len(t.ins) |-> [t.ins[k] EXCEPT !.ulen = 107]]]
OrdIn(sats) == [owner |-> "seller", sats |-> sats, ord |-> TRUE, ulen |-> 0, kind |-> "inscr"]
Accepted(c, ordIdx, sellerIdx, sl, minOuts) ==
    IF ~c.ok THEN c
    ELSE IF Len(c.tx.outs) < minOuts THEN [ok |-> FALSE, why |-> "offer"]
    ELSE [ok |-> TRUE, tx |-> [c.tx EXCEPT !.outs[sellerIdx].slen = sl, !.ins[ordIdx].sats = 1]]
Bid(price, us, q, sl) ==
    IF Len(us) < 2 THEN [ok |-> FALSE, why |-> "utxos"]
    ELSE IF FirstAbove(us, price) = 0 THEN [ok |-> FALSE, why |-> "value"]
    ELSE LET u == Reordered(us, FirstAbove(us, price))
             ins == <<In("buyer", u[1], FALSE, "p2pkh"), OrdIn(0)>> \o
                    [k \in 1..(Len(u) - 1) |-> In("buyer", u[k + 1], FALSE, "p2pkh")]
             outs == <<Out("dummy", u[1] - price, 25), Out("seller", price, 25), Out("buyerord", 1, 25)>>
         IN Accepted(WithChangeOut([ins |-> ins, outs |-> outs], q, 25), 2, 2, sl, 3)
\* two-dummy bid: acceptance insists on a change output (>= 4 outputs) and on a P2PKH receive script
Bid2D(price, us, q, sl) ==
    IF Len(us) < 3 THEN [ok |-> FALSE, why |-> "utxos"]
    ELSE IF sl # 25 THEN [ok |-> FALSE, why |-> "script"]
    ELSE LET ins == <<In("buyer", us[1], FALSE, "p2pkh"), In("buyer", us[2], FALSE, "p2pkh"), OrdIn(0)>> \o
                    [k \in 1..(Len(us) - 2) |-> In("buyer", us[k + 2], FALSE, "p2pkh")]
             outs == <<Out("dummy", us[1] + us[2], 25), Out("buyerord", 1, 25), Out("seller", price, 25)>>
         IN Accepted(WithChangeOut([ins |-> ins, outs |-> outs], q, 25), 3, 3, sl, 4)

\* ---- properties of a completed transaction t (roles as observed) ------------------------------------------
OrdIdx(t) == CHOOSE i \in 1..Len(t.ins) : t.ins[i].ord
OrdOffset(t) == Sum(LAMBDA k : IF k < OrdIdx(t) THEN t.ins[k].sats ELSE 0, Len(t.ins))
OutStart(t, k) == Sum(LAMBDA j : IF j < k THEN t.outs[j].sats ELSE 0, Len(t.outs))
\* FIFO: the ordinal's satoshi falls inside an output paying the buyer's ordinal script
OrdinalRouted(t) == \E k \in 1..Len(t.outs) : /\ t.outs[k].role = "buyerord"
                                               /\ OrdOffset(t) >= OutStart(t, k)
                                               /\ OrdOffset(t) < OutStart(t, k) + t.outs[k].sats
\* the seller's SINGLE|ANYONECANPAY signature commits to the output at the seller input's index
SellerProtected(t, price, sl) == /\ OrdIdx(t) <= Len(t.outs)
                                 /\ t.outs[OrdIdx(t)].role = "seller" /\ t.outs[OrdIdx(t)].sats = price /\ t.outs[OrdIdx(t)].slen = sl
ExactlyOneOrdinal(t) == Cardinality({i \in 1..Len(t.ins) : t.ins[i].ord}) = 1
FeePaid(t, q) == SumIn(t) >= SumOut(t) /\ SumIn(t) - SumOut(t) >= FeeFor(Sizes(t), q).total
=================================================================================
