SPECIFICATION Spec
CONSTANTS
  Family = "locktime"
INVARIANTS Total StackBound CondShape ElementBound EmitCase
PROPERTIES Terminates
CHECK_DEADLOCK FALSE
