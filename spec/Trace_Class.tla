-------------------------------- MODULE Trace_Class --------------------------------
(* Trace validation for C14: the result of every inspection query on one script, judged by  *)
(* ScriptClass!Contract.                                                                     *)
EXTENDS TraceLib, ScriptClass

VARIABLE l
Ev == Trace[l]

Init == l = 1
Next == /\ l <= Len(Trace)
        /\ l' = l + 1
        /\ Mark(l)
        /\ (~Contract(Ev.s, Ev.r)) =>
              Reject(l, [tt |-> TemplateType(Ev.s), wf |-> WellFormed(Ev.s), p2pk |-> IsP2PKT(Ev.s), multi |-> IsMultisigT(Ev.s),
                         inscr |-> IsInscriptionT(Ev.s), data |-> IsDataT(Ev.s), p2pkh |-> IsP2PKHT(Ev.s), p2sh |-> IsP2SHT(Ev.s)])
Spec == Init /\ [][Next]_l
=================================================================================
