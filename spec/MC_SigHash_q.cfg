SPECIFICATION Spec
CONSTANTS
  MaxIn = 2
  MaxOut = 2
INVARIANTS ErrorsExactly ForkLen ForkAcpZero ForkSeqZero ForkOutsRule ForkTypeLast LegacySingleBug LegacyParses EmitCase
CHECK_DEADLOCK FALSE
