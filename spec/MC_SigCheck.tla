--------------------------------- MODULE MC_SigCheck ---------------------------------
(* Design check of the OP_CHECKMULTISIG walk: for every m-of-n up to MaxN and every          *)
(* assignment "signature i was made by key s[i] (0 = nobody)", the node's greedy, in-order    *)
(* walk succeeds exactly when the signatures can be matched to keys by a strictly increasing  *)
(* map each of whose pairs verifies - i.e. it accepts exactly valid, correctly ordered        *)
(* signatures (distinct keys) - and the encoding check is applied only to visited pairs.      *)
EXTENDS SigCheck, FiniteSets

CONSTANT MaxN
VARIABLES nk, signer, res
vars == <<nk, signer, res>>
Init == /\ nk \in 0..MaxN
        /\ \E m \in 0..nk : signer \in [1..m -> 0..nk]
        /\ res = [k |-> "none"]
Go == res.k = "none" /\ res' = WalkG(LAMBDA i, j : TRUE, LAMBDA i, j : signer[i] = j, Len(signer), nk, 1, 1) /\ UNCHANGED <<nk, signer>>
Next == Go
Spec == Init /\ [][Next]_vars

Increasing(f) == \A a, b \in DOMAIN f : a < b => f[a] < f[b]
Matchable == \E f \in [1..Len(signer) -> 1..nk] : Increasing(f) /\ \A i \in 1..Len(signer) : signer[i] = f[i]
WalkIsInOrderMatching == (res.k # "none") => (res.k = "ok" /\ (res.res <=> Matchable))
=================================================================================
