--------------------------------- MODULE MC_TxBuild ---------------------------------
(* Every call sequence of up to Depth calls from a menu of boundary arguments, on up to     *)
(* MaxObjs live objects.  Invariants tie the modules together (wire format, fee sizes,      *)
(* observers); every maximal call sequence is emitted for replay into the real library.     *)
EXTENDS TxBuild, TLC, Json

CONSTANTS Depth, MaxObjs

\* the symbolic lemma module (Apalache: Add = addition mod 2^64 for all operands) is about TxBuild!Add64
A64 == INSTANCE Add64Ind WITH a <- <<>>, b <- <<>>
ASSUME \A x \in {Zeros(8), Rep(255, 8), <<255, 0, 1, 2, 3, 4, 5, 128>>, <<1, 0, 0, 0, 0, 0, 0, 0>>},
          y \in {Zeros(8), Rep(255, 8), <<1, 255, 254, 0, 9, 8, 7, 127>>, <<0, 0, 0, 0, 0, 0, 0, 128>>} : Add64(x, y) = A64!Add(x, y)

HexDigit(d) == IF d < 10 THEN 48 + d ELSE 87 + d
HexOf(bs) == [i \in 1..2 * Len(bs) |-> HexDigit(IF i % 2 = 1 THEN bs[(i + 1) \div 2] \div 16 ELSE bs[i \div 2] % 16)]

H1 == Rep(17, 20)
PK == <<2>> \o Rep(51, 32)
LockA == P2PKH(H1)
DataS == <<0, 106, 2, 7, 7>>
IdA == Rep(170, 32)
Q1 == [ss |-> 5, sb |-> 100, ds |-> 5, db |-> 100]
Q2 == [ss |-> 1, sb |-> 1, ds |-> 1, db |-> 4]
SigUS == Push(<<48>> \o Rep(1, 69) \o <<65>>) \o Push(PK)

From(id, v, ps, s) == [k |-> "from", txidc |-> id, vout |-> LE32(v), psc |-> ps, sats |-> LE64(s)]
Ut(id, v, ps, s) == [id |-> id, vout |-> LE32(v), ps |-> ps, sats |-> LE64(s)]
Menu == {From(HexOf(IdA), 0, HexOf(LockA), 5000),
         From(HexOf(Zeros(32)), 1, HexOf(LockA), 700),
         From(HexOf(Rep(170, 31)), 0, HexOf(LockA), 5000),
         From(HexOf(IdA), 0, <<122, 122>>, 5000),
         From(HexOf(IdA), 7, HexOf(DataS), 0),
         \* an input worth more than 2^63 satoshis (amounts are 64-bit values, whatever the supply)
         [k |-> "from", txidc |-> HexOf(IdA), vout |-> LE32(9), psc |-> HexOf(LockA), sats |-> <<5, 0, 0, 0, 0, 0, 0, 200>>],
         [k |-> "fromutxos", utxos |-> <<Ut(IdA, 2, LockA, 900), Ut(Rep(1, 5), 0, LockA, 1), Ut(IdA, 3, LockA, 900)>>],
         [k |-> "fromutxos", utxos |-> <<Ut(IdA, 4, LockA, 100000)>>],
         [k |-> "addoutput", sats |-> LE64(600), ls |-> LockA],
         [k |-> "addoutput", sats |-> LE64(0), ls |-> DataS],
         [k |-> "addoutput", sats |-> Rep(255, 8), ls |-> <<>>],
         [k |-> "payto", sats |-> LE64(1), ls |-> LockA],
         [k |-> "payto", sats |-> LE64(1), ls |-> Take(LockA, 24)],
         [k |-> "pkhstr", sats |-> LE64(250), hc |-> HexOf(H1)],
         [k |-> "pkhstr", sats |-> LE64(250), hc |-> HexOf(<<1, 2, 3>>)],
         [k |-> "pkhstr", sats |-> LE64(250), hc |-> <<49>>],
         [k |-> "pkbytes", sats |-> LE64(5), pk |-> PK, h160 |-> H1],
         [k |-> "pkbytes", sats |-> LE64(5), pk |-> Take(PK, 32), h160 |-> H1],
         [k |-> "hashpuzzle", sats |-> LE64(9), secret |-> <<115, 51>>, hc |-> HexOf(H1), h160 |-> H1],
         [k |-> "opreturn", parts |-> <<>>],
         [k |-> "opreturn", parts |-> <<<<1, 2>>, <<>>, Rep(9, 76)>>],
         [k |-> "inscribe", prefix |-> LockA, ct |-> <<116>>, data |-> <<104, 105>>],
         [k |-> "inscribeat", prefix |-> LockA, ct |-> <<>>, data |-> <<>>, idx |-> 1, satidx |-> LE64(3), extra |-> LockA],
         [k |-> "inscribeat", prefix |-> LockA, ct |-> <<116>>, data |-> <<1>>, idx |-> 0, satidx |-> LE64(0), extra |-> <<>>],
         [k |-> "inscribeat", prefix |-> LockA, ct |-> <<116>>, data |-> <<1>>, idx |-> 3, satidx |-> LE64(0), extra |-> <<>>],
         [k |-> "insertus", idx |-> 0, us |-> <<81>>],
         [k |-> "insertus", idx |-> 2, us |-> <<>>],
         [k |-> "set", f |-> "lt", idx |-> 0, v |-> <<0, 0, 0, 239>>],
         [k |-> "set", f |-> "seq", idx |-> 0, v |-> <<1, 0, 0, 0>>],
         [k |-> "change", ls |-> LockA, q |-> Q1],
         [k |-> "change", ls |-> DataS, q |-> Q2],
         [k |-> "changeexisting", idx |-> 0, q |-> Q1],
         [k |-> "changeexisting", idx |-> 4, q |-> Q2],
         [k |-> "sign", pk |-> PK, us |-> [i \in 1..8 |-> SigUS]],
         [k |-> "clone"],
         [k |-> "reparse", ext |-> FALSE],
         [k |-> "reparse", ext |-> TRUE]}

VARIABLES objs, hist, last
vars == <<objs, hist, last>>

Init == objs = <<NewTx>> /\ hist = <<>> /\ last = "ok"
Next == /\ Len(hist) < Depth
        /\ \E o \in 1..Len(objs), op \in Menu :
             /\ (op.k \in {"clone", "reparse"} => Len(objs) < MaxObjs)
             /\ LET r == Step(objs, o, op) IN
                /\ r.res # "fatal"                                  \* the process would exit: not driven
                /\ objs' = r.objs /\ last' = r.res
                /\ hist' = Append(hist, [o |-> o, op |-> op])
Spec == Init /\ [][Next]_vars

\* ---- invariants ---------------------------------------------------------------------------------
WireRoundTrip == \A j \in 1..Len(objs) : RoundTripExt(objs[j]) /\ RoundTripStd(objs[j])
SizesAgree == \A j \in 1..Len(objs) : SizeAgree(objs[j])
\* inputs added by the builder are final and unsigned until signed / inserted; txids are 32 bytes
InputsWellFormed == \A j \in 1..Len(objs) : \A k \in 1..Len(objs[j].ins) :
                       Len(objs[j].ins[k].txid) = 32 /\ Len(objs[j].ins[k].vout) = 4 /\ Len(objs[j].ins[k].seq) = 4
\* a failed call changes nothing, except FromUTXOs / FillAllInputs which keep their completed prefix
ErrorsAreClean == [][(last' = "err" /\ hist'[Len(hist')].op.k \notin {"fromutxos", "sign"}) => objs' = objs]_vars
PanicsAreClean == [][last' = "panic" => objs' = objs]_vars
\* calls never touch another object
OthersUntouched == [][\A j \in 1..Len(objs) : j # hist'[Len(hist')].o => objs'[j] = objs[j]]_vars
\* a change that adds or raises an output leaves the quoted fee paid (amounts small here)
ChangePays == [][(hist'[Len(hist')].op.k \in {"change", "changeexisting"} /\ last' = "ok" /\ objs' # objs) =>
                   LET t == objs'[hist'[Len(hist')].o] IN
                   AllSmall(t) => Enough(ToB(t), EstSizes(ToB(t)), hist'[Len(hist')].op.q)]_vars
\* new objects are wire-equal to their source
CopiesEqual == [][(Len(objs') = Len(objs) + 1) =>
                   LET o == hist'[Len(hist')].o  op == hist'[Len(hist')].op  c == objs'[Len(objs')] IN
                   IF op.k = "clone" \/ op.ext THEN c = objs[o] ELSE c = StdView(objs[o])]_vars

EmitSeq == (Len(hist) = Depth) => PrintT(ToJson([k |-> "seq", ops |-> hist]))
=================================================================================
