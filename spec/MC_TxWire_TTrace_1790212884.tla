---- MODULE MC_TxWire_TTrace_1790212884 ----
EXTENDS Sequences, TLCExt, Toolbox, Naturals, TLC, MC_TxWire

_expression ==
    LET MC_TxWire_TEExpression == INSTANCE MC_TxWire_TEExpression
    IN MC_TxWire_TEExpression!expression
----

_trace ==
    LET MC_TxWire_TETrace == INSTANCE MC_TxWire_TETrace
    IN MC_TxWire_TETrace!trace
----

_inv ==
    ~(
        TLCGet("level") = Len(_TETrace)
        /\
        phase = ("ser")
        /\
        ext = (FALSE)
        /\
        buf = (<<1, 0, 0, 0, 0, 1, 0, 0, 0, 0, 0, 0, 0, 0, 253, 7, 7, 7, 7, 7, 7, 7, 7, 7, 7, 7, 7, 7, 7, 7, 7, 7, 7, 7, 7, 7, 7, 7, 7, 7, 7, 7, 7, 7, 7, 7, 7, 7, 7, 7, 7, 7, 7, 7, 7, 7, 7, 7, 7, 7, 7, 7, 7, 7, 7, 7, 7, 7, 7, 7, 7, 7, 7, 7, 7, 7, 7, 7, 7, 7, 7, 7, 7, 7, 7, 7, 7, 7, 7, 7, 7, 7, 7, 7, 7, 7, 7, 7, 7, 7, 7, 7, 7, 7, 7, 7, 7, 7, 7, 7, 7, 7, 7, 7, 7, 7, 7, 7, 7, 7, 7, 7, 7, 7, 7, 7, 7, 7, 7, 7, 7, 7, 7, 7, 7, 7, 7, 7, 7, 7, 7, 7, 7, 7, 7, 7, 7, 7, 7, 7, 7, 7, 7, 7, 7, 7, 7, 7, 7, 7, 7, 7, 7, 7, 7, 7, 7, 7, 7, 7, 7, 7, 7, 7, 7, 7, 7, 7, 7, 7, 7, 7, 7, 7, 7, 7, 7, 7, 7, 7, 7, 7, 7, 7, 7, 7, 7, 7, 7, 7, 7, 7, 7, 7, 7, 7, 7, 7, 7, 7, 7, 7, 7, 7, 7, 7, 7, 7, 7, 7, 7, 7, 7, 7, 7, 7, 7, 7, 7, 7, 7, 7, 7, 7, 7, 7, 7, 7, 7, 7, 7, 7, 7, 7, 7, 7, 7, 7, 7, 7, 7, 7, 7, 7, 7, 7, 7, 7, 7, 7, 7, 7, 7, 7, 7, 7, 7, 7, 0, 0, 0, 0>>)
        /\
        cut = ("none")
        /\
        tx = ([ver |-> <<1, 0, 0, 0>>, ins |-> <<>>, outs |-> <<[sats |-> <<0, 0, 0, 0, 0, 0, 0, 0>>, ls |-> <<7, 7, 7, 7, 7, 7, 7, 7, 7, 7, 7, 7, 7, 7, 7, 7, 7, 7, 7, 7, 7, 7, 7, 7, 7, 7, 7, 7, 7, 7, 7, 7, 7, 7, 7, 7, 7, 7, 7, 7, 7, 7, 7, 7, 7, 7, 7, 7, 7, 7, 7, 7, 7, 7, 7, 7, 7, 7, 7, 7, 7, 7, 7, 7, 7, 7, 7, 7, 7, 7, 7, 7, 7, 7, 7, 7, 7, 7, 7, 7, 7, 7, 7, 7, 7, 7, 7, 7, 7, 7, 7, 7, 7, 7, 7, 7, 7, 7, 7, 7, 7, 7, 7, 7, 7, 7, 7, 7, 7, 7, 7, 7, 7, 7, 7, 7, 7, 7, 7, 7, 7, 7, 7, 7, 7, 7, 7, 7, 7, 7, 7, 7, 7, 7, 7, 7, 7, 7, 7, 7, 7, 7, 7, 7, 7, 7, 7, 7, 7, 7, 7, 7, 7, 7, 7, 7, 7, 7, 7, 7, 7, 7, 7, 7, 7, 7, 7, 7, 7, 7, 7, 7, 7, 7, 7, 7, 7, 7, 7, 7, 7, 7, 7, 7, 7, 7, 7, 7, 7, 7, 7, 7, 7, 7, 7, 7, 7, 7, 7, 7, 7, 7, 7, 7, 7, 7, 7, 7, 7, 7, 7, 7, 7, 7, 7, 7, 7, 7, 7, 7, 7, 7, 7, 7, 7, 7, 7, 7, 7, 7, 7, 7, 7, 7, 7, 7, 7, 7, 7, 7, 7, 7, 7, 7, 7, 7, 7, 7, 7, 7, 7, 7, 7>>]>>, lt |-> <<0, 0, 0, 0>>])
    )
----

_init ==
    /\ phase = _TETrace[1].phase
    /\ ext = _TETrace[1].ext
    /\ buf = _TETrace[1].buf
    /\ tx = _TETrace[1].tx
    /\ cut = _TETrace[1].cut
----

_next ==
    /\ \E i,j \in DOMAIN _TETrace:
        /\ \/ /\ j = i + 1
              /\ i = TLCGet("level")
        /\ phase  = _TETrace[i].phase
        /\ phase' = _TETrace[j].phase
        /\ ext  = _TETrace[i].ext
        /\ ext' = _TETrace[j].ext
        /\ buf  = _TETrace[i].buf
        /\ buf' = _TETrace[j].buf
        /\ tx  = _TETrace[i].tx
        /\ tx' = _TETrace[j].tx
        /\ cut  = _TETrace[i].cut
        /\ cut' = _TETrace[j].cut

\* Uncomment the ASSUME below to write the states of the error trace
\* to the given file in Json format. Note that you can pass any tuple
\* to `JsonSerialize`. For example, a sub-sequence of _TETrace.
    \* ASSUME
    \*     LET J == INSTANCE Json
    \*         IN J!JsonSerialize("MC_TxWire_TTrace_1790212884.json", _TETrace)

=============================================================================

 Note that you can extract this module `MC_TxWire_TEExpression`
  to a dedicated file to reuse `expression` (the module in the 
  dedicated `MC_TxWire_TEExpression.tla` file takes precedence 
  over the module `MC_TxWire_TEExpression` below).

---- MODULE MC_TxWire_TEExpression ----
EXTENDS Sequences, TLCExt, Toolbox, Naturals, TLC, MC_TxWire

expression == 
    [
        \* To hide variables of the `MC_TxWire` spec from the error trace,
        \* remove the variables below.  The trace will be written in the order
        \* of the fields of this record.
        phase |-> phase
        ,ext |-> ext
        ,buf |-> buf
        ,tx |-> tx
        ,cut |-> cut
        
        \* Put additional constant-, state-, and action-level expressions here:
        \* ,_stateNumber |-> _TEPosition
        \* ,_phaseUnchanged |-> phase = phase'
        
        \* Format the `phase` variable as Json value.
        \* ,_phaseJson |->
        \*     LET J == INSTANCE Json
        \*     IN J!ToJson(phase)
        
        \* Lastly, you may build expressions over arbitrary sets of states by
        \* leveraging the _TETrace operator.  For example, this is how to
        \* count the number of times a spec variable changed up to the current
        \* state in the trace.
        \* ,_phaseModCount |->
        \*     LET F[s \in DOMAIN _TETrace] ==
        \*         IF s = 1 THEN 0
        \*         ELSE IF _TETrace[s].phase # _TETrace[s-1].phase
        \*             THEN 1 + F[s-1] ELSE F[s-1]
        \*     IN F[_TEPosition - 1]
    ]

=============================================================================



Parsing and semantic processing can take forever if the trace below is long.
 In this case, it is advised to uncomment the module below to deserialize the
 trace from a generated binary file.

\*
\*---- MODULE MC_TxWire_TETrace ----
\*EXTENDS IOUtils, TLC, MC_TxWire
\*
\*trace == IODeserialize("MC_TxWire_TTrace_1790212884.bin", TRUE)
\*
\*=============================================================================
\*

---- MODULE MC_TxWire_TETrace ----
EXTENDS TLC, MC_TxWire

trace == 
    <<
    ([phase |-> "built",ext |-> FALSE,buf |-> <<>>,cut |-> "none",tx |-> [ver |-> <<1, 0, 0, 0>>, ins |-> <<>>, outs |-> <<[sats |-> <<0, 0, 0, 0, 0, 0, 0, 0>>, ls |-> <<7, 7, 7, 7, 7, 7, 7, 7, 7, 7, 7, 7, 7, 7, 7, 7, 7, 7, 7, 7, 7, 7, 7, 7, 7, 7, 7, 7, 7, 7, 7, 7, 7, 7, 7, 7, 7, 7, 7, 7, 7, 7, 7, 7, 7, 7, 7, 7, 7, 7, 7, 7, 7, 7, 7, 7, 7, 7, 7, 7, 7, 7, 7, 7, 7, 7, 7, 7, 7, 7, 7, 7, 7, 7, 7, 7, 7, 7, 7, 7, 7, 7, 7, 7, 7, 7, 7, 7, 7, 7, 7, 7, 7, 7, 7, 7, 7, 7, 7, 7, 7, 7, 7, 7, 7, 7, 7, 7, 7, 7, 7, 7, 7, 7, 7, 7, 7, 7, 7, 7, 7, 7, 7, 7, 7, 7, 7, 7, 7, 7, 7, 7, 7, 7, 7, 7, 7, 7, 7, 7, 7, 7, 7, 7, 7, 7, 7, 7, 7, 7, 7, 7, 7, 7, 7, 7, 7, 7, 7, 7, 7, 7, 7, 7, 7, 7, 7, 7, 7, 7, 7, 7, 7, 7, 7, 7, 7, 7, 7, 7, 7, 7, 7, 7, 7, 7, 7, 7, 7, 7, 7, 7, 7, 7, 7, 7, 7, 7, 7, 7, 7, 7, 7, 7, 7, 7, 7, 7, 7, 7, 7, 7, 7, 7, 7, 7, 7, 7, 7, 7, 7, 7, 7, 7, 7, 7, 7, 7, 7, 7, 7, 7, 7, 7, 7, 7, 7, 7, 7, 7, 7, 7, 7, 7, 7, 7, 7, 7, 7, 7, 7, 7, 7>>]>>, lt |-> <<0, 0, 0, 0>>]]),
    ([phase |-> "ser",ext |-> FALSE,buf |-> <<1, 0, 0, 0, 0, 1, 0, 0, 0, 0, 0, 0, 0, 0, 253, 7, 7, 7, 7, 7, 7, 7, 7, 7, 7, 7, 7, 7, 7, 7, 7, 7, 7, 7, 7, 7, 7, 7, 7, 7, 7, 7, 7, 7, 7, 7, 7, 7, 7, 7, 7, 7, 7, 7, 7, 7, 7, 7, 7, 7, 7, 7, 7, 7, 7, 7, 7, 7, 7, 7, 7, 7, 7, 7, 7, 7, 7, 7, 7, 7, 7, 7, 7, 7, 7, 7, 7, 7, 7, 7, 7, 7, 7, 7, 7, 7, 7, 7, 7, 7, 7, 7, 7, 7, 7, 7, 7, 7, 7, 7, 7, 7, 7, 7, 7, 7, 7, 7, 7, 7, 7, 7, 7, 7, 7, 7, 7, 7, 7, 7, 7, 7, 7, 7, 7, 7, 7, 7, 7, 7, 7, 7, 7, 7, 7, 7, 7, 7, 7, 7, 7, 7, 7, 7, 7, 7, 7, 7, 7, 7, 7, 7, 7, 7, 7, 7, 7, 7, 7, 7, 7, 7, 7, 7, 7, 7, 7, 7, 7, 7, 7, 7, 7, 7, 7, 7, 7, 7, 7, 7, 7, 7, 7, 7, 7, 7, 7, 7, 7, 7, 7, 7, 7, 7, 7, 7, 7, 7, 7, 7, 7, 7, 7, 7, 7, 7, 7, 7, 7, 7, 7, 7, 7, 7, 7, 7, 7, 7, 7, 7, 7, 7, 7, 7, 7, 7, 7, 7, 7, 7, 7, 7, 7, 7, 7, 7, 7, 7, 7, 7, 7, 7, 7, 7, 7, 7, 7, 7, 7, 7, 7, 7, 7, 7, 7, 7, 7, 7, 0, 0, 0, 0>>,cut |-> "none",tx |-> [ver |-> <<1, 0, 0, 0>>, ins |-> <<>>, outs |-> <<[sats |-> <<0, 0, 0, 0, 0, 0, 0, 0>>, ls |-> <<7, 7, 7, 7, 7, 7, 7, 7, 7, 7, 7, 7, 7, 7, 7, 7, 7, 7, 7, 7, 7, 7, 7, 7, 7, 7, 7, 7, 7, 7, 7, 7, 7, 7, 7, 7, 7, 7, 7, 7, 7, 7, 7, 7, 7, 7, 7, 7, 7, 7, 7, 7, 7, 7, 7, 7, 7, 7, 7, 7, 7, 7, 7, 7, 7, 7, 7, 7, 7, 7, 7, 7, 7, 7, 7, 7, 7, 7, 7, 7, 7, 7, 7, 7, 7, 7, 7, 7, 7, 7, 7, 7, 7, 7, 7, 7, 7, 7, 7, 7, 7, 7, 7, 7, 7, 7, 7, 7, 7, 7, 7, 7, 7, 7, 7, 7, 7, 7, 7, 7, 7, 7, 7, 7, 7, 7, 7, 7, 7, 7, 7, 7, 7, 7, 7, 7, 7, 7, 7, 7, 7, 7, 7, 7, 7, 7, 7, 7, 7, 7, 7, 7, 7, 7, 7, 7, 7, 7, 7, 7, 7, 7, 7, 7, 7, 7, 7, 7, 7, 7, 7, 7, 7, 7, 7, 7, 7, 7, 7, 7, 7, 7, 7, 7, 7, 7, 7, 7, 7, 7, 7, 7, 7, 7, 7, 7, 7, 7, 7, 7, 7, 7, 7, 7, 7, 7, 7, 7, 7, 7, 7, 7, 7, 7, 7, 7, 7, 7, 7, 7, 7, 7, 7, 7, 7, 7, 7, 7, 7, 7, 7, 7, 7, 7, 7, 7, 7, 7, 7, 7, 7, 7, 7, 7, 7, 7, 7, 7, 7, 7, 7, 7, 7>>]>>, lt |-> <<0, 0, 0, 0>>]])
    >>
----


=============================================================================

---- CONFIG MC_TxWire_TTrace_1790212884 ----
CONSTANTS
    Mode = "tx"
    MaxFeed = 0

INVARIANT
    _inv

CHECK_DEADLOCK
    \* CHECK_DEADLOCK off because of PROPERTY or INVARIANT above.
    FALSE

INIT
    _init

NEXT
    _next

CONSTANT
    _TETrace <- _trace

ALIAS
    _expression
=============================================================================
\* Generated on Thu Sep 24 01:21:34 UTC 2026