SPECIFICATION Spec
CONSTANTS
  Family = "flow5"
INVARIANTS Total StackBound CondShape ElementBound EmitCase
PROPERTIES Terminates
CHECK_DEADLOCK FALSE
