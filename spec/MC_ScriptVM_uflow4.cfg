SPECIFICATION Spec
CONSTANTS
  Family = "uflow4"
INVARIANTS Total StackBound CondShape ElementBound EmitCase
PROPERTIES Terminates
CHECK_DEADLOCK FALSE
