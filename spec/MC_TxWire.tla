-------------------------------- MODULE MC_TxWire --------------------------------
(* Exhaustive models of the wire codec.                                                    *)
(*  Mode "tx":   a codec session - pick a model transaction and a format, serialise,       *)
(*               optionally append trailing bytes or truncate, parse (stream / exact).     *)
(*  Mode "feed": the parser fed byte by byte from a small alphabet after a version field.  *)
EXTENDS TxWire, TLC, Json

\* the symbolic lemma module (Apalache: RoundTrip for every value below 2^31) talks about this very codec
VI == INSTANCE VarIntInd WITH n <- 0
ASSUME \A k \in {0, 1, 252, 253, 254, 255, 256, 65535, 65536, 65537, 70000, 16777215, 16777216, 2147483646} : VarIntEnc(k) = VI!Enc(k)

CONSTANTS Mode, MaxFeed, MaxOuts

\* ---- model transactions ------------------------------------------------------------------
Scripts == {<<>>, <<81>>, Rep(106, 252), Rep(7, 253)}
TxidA == Rep(170, 32)
TxidB == [i \in 1..32 |-> i]
Ins == {[txid |-> t, vout |-> v, us |-> u, seq |-> s, sats |-> a, ps |-> p] :
          t \in {TxidA}, v \in {<<0, 0, 0, 0>>, <<255, 255, 255, 255>>}, u \in {<<>>, <<81>>, Rep(7, 253)},
          s \in {<<255, 255, 255, 255>>}, a \in {Zeros(8), <<1, 0, 0, 0, 0, 0, 0, 128>>}, p \in {<<>>, <<118, 169>>}}
       \cup {[txid |-> TxidB, vout |-> <<1, 0, 0, 0>>, us |-> <<0, 239>>, seq |-> <<0, 0, 0, 0>>,
              sats |-> <<255, 255, 255, 255, 255, 255, 255, 255>>, ps |-> Rep(172, 253)]}
Outs == {[sats |-> a, ls |-> l] : a \in {Zeros(8), <<232, 3, 0, 0, 0, 0, 0, 0>>}, l \in Scripts}
         \cup {[sats |-> <<255, 255, 255, 255, 255, 255, 255, 255>>, ls |-> <<0, 106, 1, 255>>]}
Vers == {<<1, 0, 0, 0>>, <<255, 255, 255, 255>>}
Lts == {<<0, 0, 0, 0>>, <<0, 0, 0, 239>>, <<239, 0, 0, 0>>}
SeqUpTo(S, n) == UNION {[1..k -> S] : k \in 0..n}
ManyOuts(n) == [k \in 1..n |-> [sats |-> Zeros(8), ls |-> <<>>]]
ModelTx == {[ver |-> v, ins |-> i, outs |-> o, lt |-> l] :
              v \in Vers, i \in SeqUpTo(Ins, 1), o \in SeqUpTo(Outs, MaxOuts), l \in Lts}
           \cup {[ver |-> <<2, 0, 0, 0>>, ins |-> i, outs |-> o, lt |-> <<0, 0, 0, 0>>] :
                   i \in [1..2 -> Ins], o \in {<<>>, ManyOuts(252), ManyOuts(253)}}
Trailers == {<<>>, <<0>>, <<1, 0, 0, 0, 0, 0, 0, 0, 0, 0>>}

VARIABLES tx, ext, buf, phase, cut
vars == <<tx, ext, buf, phase, cut>>

NoTx == [ver |-> <<>>, ins |-> <<>>, outs |-> <<>>, lt |-> <<>>]

InitTx == /\ tx \in ModelTx /\ ext \in BOOLEAN /\ buf = <<>> /\ phase = "built" /\ cut = "none"
InitFeed == /\ tx = NoTx /\ ext = FALSE /\ buf = <<1, 0, 0, 0>> /\ phase = "feed" /\ cut = "none"
Init == IF Mode = "tx" THEN InitTx ELSE InitFeed

Serialise == /\ phase = "built" /\ buf' = Ser(tx, ext) /\ phase' = "ser" /\ UNCHANGED <<tx, ext, cut>>
Trail == /\ phase = "ser" /\ cut = "none"
         /\ \E t \in Trailers \ {<<>>} : buf' = buf \o t
         /\ cut' = "trail" /\ UNCHANGED <<tx, ext, phase>>
Truncate == /\ phase = "ser" /\ cut = "none"
            /\ \E k \in {0, 3, 4, 5, 10, 11, Len(buf) - 5, Len(buf) - 4, Len(buf) - 1} :
                  k >= 0 /\ k < Len(buf) /\ buf' = Take(buf, k)
            /\ cut' = "trunc" /\ UNCHANGED <<tx, ext, phase>>
Feed == /\ phase = "feed" /\ Len(buf) < 4 + MaxFeed
        /\ \E c \in {0, 1, 239, 253} : buf' = Append(buf, c)
        /\ UNCHANGED <<tx, ext, phase, cut>>
Next == Serialise \/ Trail \/ Truncate \/ Feed
Spec == Init /\ [][Next]_vars

\* ---- properties ---------------------------------------------------------------------------
Expect(t, e) == IF e THEN t ELSE StdView(t)
Excluded == ~ext /\ Ambiguous(tx)

RoundTrip == (phase = "ser" /\ cut = "none" /\ ~Excluded) =>
                LET r == ParseExact(buf) IN
                /\ r.ok /\ r.ext = ext /\ r.tx = Expect(tx, ext) /\ r.used = Len(buf) /\ r.minimal
                /\ Ser(r.tx, r.ext) = buf
\* the excluded shape really is ambiguous (the exclusion is not vacuous)
AmbiguityIsReal == (phase = "ser" /\ cut = "none" /\ Excluded) => ~(ParseExact(buf).ok /\ ParseExact(buf).tx = tx /\ ~ParseExact(buf).ext)
PrefixFree == (phase = "ser" /\ cut = "trail" /\ ~Excluded) =>
                LET r == ParseStream(buf) IN
                /\ r.ok /\ r.tx = Expect(tx, ext) /\ r.used = Len(Ser(tx, ext)) /\ ~ParseExact(buf).ok
TruncatedFails == (phase = "ser" /\ cut = "trunc" /\ ~Excluded) => ~ParseStream(buf).ok
\* anything accepted is consumed exactly, re-serialises canonically, and parsing is prefix-stable
Canonical == LET r == ParseStream(buf) IN
             r.ok => /\ r.used <= Len(buf)
                     /\ r.minimal => Ser(r.tx, r.ext) = Take(buf, r.used)
                     /\ ParseExact(Take(buf, r.used)).ok
                     /\ ParseExact(Take(buf, r.used)).tx = r.tx
ListOfOne == (phase = "ser" /\ cut = "none" /\ ~Excluded) =>
                LET r == ParseList(<<2>> \o buf \o buf) IN
                r.ok /\ Len(r.txs) = 2 /\ r.txs[1].tx = Expect(tx, ext) /\ r.txs[2].tx = Expect(tx, ext) /\ r.used = 1 + 2 * Len(buf)

\* ---- generator -------------------------------------------------------------------------------
EmitCase == /\ (phase = "feed") => PrintT(ToJson([k |-> "case", buf |-> buf]))
            /\ (phase = "ser" /\ cut = "none") => PrintT(ToJson([k |-> "case", buf |-> buf, tx |-> tx]))
=================================================================================
