-------------------------------- MODULE MC_ScriptTok -------------------------------
(* Exhaustive design check of the script tokeniser and the parts codec: all byte strings up *)
(* to MaxLen over an alphabet of opcode / push-header bytes, and all item lists whose        *)
(* lengths sit on the push-form boundaries.                                                   *)
EXTENDS ScriptTok, TLC, Json

\* the symbolic lemma module (Apalache: header round trip for every length below 2^31) is about this very operator
PH == INSTANCE PushHdrInd WITH n <- 1
ASSUME \A k \in {1, 2, 75, 76, 77, 255, 256, 257, 65535, 65536, 65537, 16777216, 2147483646} : PushPrefix(k) = PH!Prefix(k)

CONSTANT MaxLen
Alpha == {0, 1, 2, 3, 75, 76, 77, 78, 79, 81, 106, 118, 172, 255}
Lens == {1, 2, 75, 76, 255, 256}
Items == {Rep(7, n) : n \in Lens} \cup {<<0>>, <<81>>}

VARIABLES mode, s, items
vars == <<mode, s, items>>

Init == \/ /\ mode = "bytes" /\ s = <<>> /\ items = <<>>
        \/ /\ mode = "items" /\ s = <<>> /\ items \in UNION {[1..n -> Items] : n \in 0..2}
Grow == mode = "bytes" /\ Len(s) < MaxLen /\ \E c \in Alpha : s' = Append(s, c) /\ UNCHANGED <<mode, items>>
Next == Grow
Spec == Init /\ [][Next]_vars

\* ---- theorems of the specification ---------------------------------------------------------------------
RoundTrip == mode = "bytes" => Unparse(Tokenize(s)) = IF WellFormed(s) THEN s ELSE Unparse(Tokenize(s))
UnparseWellFormed == (mode = "bytes" /\ WellFormed(s)) => Unparse(Tokenize(s)) = s
TruncationDetected == (mode = "bytes" /\ ~WellFormed(s)) =>
                         LET t == Tokenize(s) IN t # <<>> /\ t[Len(t)].bad /\ \A k \in 1..(Len(t) - 1) : ~t[k].bad
PartsRoundTrip == mode = "items" => LET e == EncodeParts(items) IN
                     WellFormed(e) /\ PartsOf(Tokenize(e)) = items /\ \A k \in 1..Len(Tokenize(e)) : MinimalPushLenForm(Tokenize(e)[k])
EmitCase == PrintT(ToJson([k |-> "case", mode |-> mode, s |-> s, items |-> items]))
=================================================================================
