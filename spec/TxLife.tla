------------------------------------ MODULE TxLife ------------------------------------
(* Lifecycle of a transaction object as an API session (C16, and the lifecycle side of C11): *)
(* inputs are added (with or without the spent output recorded), outputs of several script   *)
(* classes are added, inputs are signed one at a time, and at ANY point the object may be     *)
(* serialised to / parsed from JSON in either dialect.  Json is an action that must leave     *)
(* the abstract state unchanged and end in "ok" or "err".                                     *)
EXTENDS Integers, Sequences, FiniteSets

CONSTANTS MaxIn, MaxOut
OutKinds == {"p2pkh", "data", "falsedata", "other", "empty", "weird"}
VARIABLES ins, outs, last
vars == <<ins, outs, last>>
\* input: [signed : BOOLEAN, prev : BOOLEAN (spent output recorded)]

Init == ins = <<>> /\ outs = <<>> /\ last = [op |-> "new"]
AddInput == /\ Len(ins) < MaxIn /\ \E p \in BOOLEAN : ins' = Append(ins, [signed |-> FALSE, prev |-> p])
            /\ UNCHANGED outs /\ last' = [op |-> "addin"]
AddOutput == /\ Len(outs) < MaxOut /\ \E k \in OutKinds : outs' = Append(outs, k)
             /\ UNCHANGED ins /\ last' = [op |-> "addout"]
Sign == /\ \E i \in 1..Len(ins) : ~ins[i].signed /\ ins[i].prev /\ ins' = [ins EXCEPT ![i].signed = TRUE]
        /\ UNCHANGED outs /\ last' = [op |-> "sign"]
\* marshal + unmarshal in a dialect: the object is unchanged
Json == /\ \E d \in {"lib", "node"}, o \in {"tx", "txs", "output"} : last' = [op |-> "json", dialect |-> d, obj |-> o]
        /\ UNCHANGED <<ins, outs>>
Next == AddInput \/ AddOutput \/ Sign \/ Json
Spec == Init /\ [][Next]_vars

JsonPure == [][last'.op = "json" => (ins' = ins /\ outs' = outs)]_vars
SignedHavePrev == \A i \in 1..Len(ins) : ins[i].signed => ins[i].prev
=================================================================================
