SPECIFICATION Spec
CONSTANTS
  Family = "deadpush"
INVARIANTS Total StackBound CondShape ElementBound EmitCase
PROPERTIES Terminates
CHECK_DEADLOCK FALSE
