--------------------------------- MODULE ScriptTok --------------------------------
(* The one script tokeniser.  A script (byte tuple) is a sequence of tokens                *)
(*    [op : 0..255, data : bytes, bad : BOOLEAN]                                            *)
(* op 1..75 push that many bytes, 76/77/78 (PUSHDATA1/2/4) push a length-prefixed string.   *)
(* A push that runs past the end of the script yields a final token with bad = TRUE.        *)
EXTENDS Bytes

OP_0 == 0              OP_PUSHDATA1 == 76      OP_PUSHDATA2 == 77     OP_PUSHDATA4 == 78
OP_1NEGATE == 79       OP_RESERVED == 80       OP_1 == 81             OP_16 == 96
OP_NOP == 97           OP_VER == 98            OP_IF == 99            OP_NOTIF == 100
OP_VERIF == 101        OP_VERNOTIF == 102      OP_ELSE == 103         OP_ENDIF == 104
OP_VERIFY == 105       OP_RETURN == 106        OP_TOALTSTACK == 107   OP_FROMALTSTACK == 108
OP_2DROP == 109        OP_2DUP == 110          OP_3DUP == 111         OP_2OVER == 112
OP_2ROT == 113         OP_2SWAP == 114         OP_IFDUP == 115        OP_DEPTH == 116
OP_DROP == 117         OP_DUP == 118           OP_NIP == 119          OP_OVER == 120
OP_PICK == 121         OP_ROLL == 122          OP_ROT == 123          OP_SWAP == 124
OP_TUCK == 125         OP_CAT == 126           OP_SPLIT == 127        OP_NUM2BIN == 128
OP_BIN2NUM == 129      OP_SIZE == 130          OP_INVERT == 131       OP_AND == 132
OP_OR == 133           OP_XOR == 134           OP_EQUAL == 135        OP_EQUALVERIFY == 136
OP_RESERVED1 == 137    OP_RESERVED2 == 138     OP_1ADD == 139         OP_1SUB == 140
OP_2MUL == 141         OP_2DIV == 142          OP_NEGATE == 143       OP_ABS == 144
OP_NOT == 145          OP_0NOTEQUAL == 146     OP_ADD == 147          OP_SUB == 148
OP_MUL == 149          OP_DIV == 150           OP_MOD == 151          OP_LSHIFT == 152
OP_RSHIFT == 153       OP_BOOLAND == 154       OP_BOOLOR == 155       OP_NUMEQUAL == 156
OP_NUMEQUALVERIFY == 157  OP_NUMNOTEQUAL == 158  OP_LESSTHAN == 159   OP_GREATERTHAN == 160
OP_LESSTHANOREQUAL == 161 OP_GREATERTHANOREQUAL == 162 OP_MIN == 163  OP_MAX == 164
OP_WITHIN == 165       OP_RIPEMD160 == 166     OP_SHA1 == 167         OP_SHA256 == 168
OP_HASH160 == 169      OP_HASH256 == 170       OP_CODESEPARATOR == 171 OP_CHECKSIG == 172
OP_CHECKSIGVERIFY == 173 OP_CHECKMULTISIG == 174 OP_CHECKMULTISIGVERIFY == 175
OP_NOP1 == 176         OP_CLTV == 177          OP_CSV == 178          OP_NOP4 == 179
OP_NOP10 == 185

Tok(op, data) == [op |-> op, data |-> data, bad |-> FALSE]
BadTok(op) == [op |-> op, data |-> <<>>, bad |-> TRUE]

\* token starting at 1-based pos: [tok, next]
TokAt(s, pos) ==
    LET op == s[pos]
        rem == Len(s) - pos                 \* bytes after the opcode
    IN IF op >= 1 /\ op <= 75
       THEN IF rem < op THEN [tok |-> BadTok(op), next |-> Len(s) + 1]
            ELSE [tok |-> Tok(op, Slice(s, pos + 1, op)), next |-> pos + 1 + op]
       ELSE IF op \in {OP_PUSHDATA1, OP_PUSHDATA2, OP_PUSHDATA4}
       THEN LET w == IF op = OP_PUSHDATA1 THEN 1 ELSE IF op = OP_PUSHDATA2 THEN 2 ELSE 4 IN
            IF rem < w THEN [tok |-> BadTok(op), next |-> Len(s) + 1]
            ELSE LET n == LEVal(Slice(s, pos + 1, w)) IN
                 IF n > rem - w THEN [tok |-> BadTok(op), next |-> Len(s) + 1]
                 ELSE [tok |-> Tok(op, Slice(s, pos + 1 + w, n)), next |-> pos + 1 + w + n]
       ELSE [tok |-> Tok(op, <<>>), next |-> pos + 1]

\* all tokens of a script (the last one may be bad)
Tokenize(s) == FoldLeft(LAMBDA acc, i :
                          IF i # acc.pos THEN acc
                          ELSE LET t == TokAt(s, i) IN [pos |-> t.next, toks |-> Append(acc.toks, t.tok)],
                        [pos |-> 1, toks |-> <<>>], Idx(Len(s))).toks
WellFormed(s) == LET t == Tokenize(s) IN t = <<>> \/ ~t[Len(t)].bad

\* shortest push form for a data item (as an opcode prefix; OP_0 / OP_1..16 / OP_1NEGATE are
\* not used by EncodeParts-style encoders, see MinimalPushOp for the interpreter's rule)
PushPrefix(n) == IF n <= 75 THEN <<n>>
                 ELSE IF n <= 255 THEN <<OP_PUSHDATA1, n>>
                 ELSE IF n <= 65535 THEN <<OP_PUSHDATA2>> \o LE16(n)
                 ELSE <<OP_PUSHDATA4>> \o LE32(n)
UnparseTok(t) == IF t.op >= 1 /\ t.op <= 75 THEN <<t.op>> \o t.data
                 ELSE IF t.op = OP_PUSHDATA1 THEN <<t.op, Len(t.data)>> \o t.data
                 ELSE IF t.op = OP_PUSHDATA2 THEN <<t.op>> \o LE16(Len(t.data)) \o t.data
                 ELSE IF t.op = OP_PUSHDATA4 THEN <<t.op>> \o LE32(Len(t.data)) \o t.data
                 ELSE <<t.op>>
Unparse(toks) == Concat([k \in 1..Len(toks) |-> UnparseTok(toks[k])])

\* ---- the "parts" view (bscript.DecodeParts / EncodeParts): a push is its payload, any other
\* ---- opcode the one-byte string holding it
IsDataPush(op) == op >= 1 /\ op <= OP_PUSHDATA4
PartsOf(toks) == [k \in 1..Len(toks) |-> IF IsDataPush(toks[k].op) THEN toks[k].data ELSE <<toks[k].op>>]
EncodeParts(items) == Concat([k \in 1..Len(items) |-> PushPrefix(Len(items[k])) \o items[k]])
HasOp(toks, op) == \E k \in 1..Len(toks) : ~toks[k].bad /\ toks[k].op = op
StartsAsData(s) == (Len(s) >= 1 /\ s[1] = OP_RETURN) \/ (Len(s) >= 2 /\ s[1] = OP_0 /\ s[2] = OP_RETURN)
\* scripts whose assembly rendering must convert back: non-empty, non-data, only non-push opcodes
\* and minimally prefixed pushes of two or more bytes
AsmSafe(s) == /\ s # <<>> /\ WellFormed(s) /\ ~StartsAsData(s)
              /\ LET t == Tokenize(s) IN
                 \A k \in 1..Len(t) : ~IsDataPush(t[k].op) \/
                                       (Len(t[k].data) >= 2 /\ UnparseTok(t[k]) = PushPrefix(Len(t[k].data)) \o t[k].data)

\* a push that uses the shortest of the four length forms for its payload
MinimalPushLenForm(t) == IsDataPush(t.op) => UnparseTok(t) = PushPrefix(Len(t.data)) \o t.data

IsPushOp(op) == op <= OP_16
PushOnly(toks) == \A k \in 1..Len(toks) : IsPushOp(toks[k].op)

\* the interpreter's minimal-push rule (CheckMinimalPush)
MinimalPush(t) == LET n == Len(t.data) IN
                  IF n = 0 THEN t.op = OP_0
                  ELSE IF n = 1 /\ t.data[1] >= 1 /\ t.data[1] <= 16 THEN t.op = OP_1 + t.data[1] - 1
                  ELSE IF n = 1 /\ t.data[1] = 129 THEN t.op = OP_1NEGATE
                  ELSE IF n <= 75 THEN t.op = n
                  ELSE IF n <= 255 THEN t.op = OP_PUSHDATA1
                  ELSE IF n <= 65535 THEN t.op = OP_PUSHDATA2
                  ELSE TRUE
=================================================================================
