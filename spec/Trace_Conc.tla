--------------------------------- MODULE Trace_Conc ---------------------------------
(* Judging the concurrent runs of C18.                                                       *)
(*  pair    : two methods hammered from several goroutines on shared FeeQuotes / FeeQuote      *)
(*            under the Go race detector; predicted = FeeQuoteConc (with the observed lock      *)
(*            discipline) admits a race for this pair; race = the detector reported one         *)
(*  history : concurrent writers of distinct values and readers; unexplained = values read      *)
(*            that no write stored                                                              *)
(*  engine  : the same scripts validated concurrently on one engine and sequentially            *)
EXTENDS TraceLib

VARIABLE l
Ev == Trace[l]

Init == l = 1
Next == /\ l <= Len(Trace)
        /\ l' = l + 1
        /\ Mark(l)
        /\ CASE Ev.ev = "pair" -> Ev.race => Reject(l, [ev |-> "pair", predicted |-> Ev.predicted])
             [] Ev.ev = "history" -> (Ev.unexplained # <<>> \/ Ev.race) => Reject(l, [ev |-> "history", race |-> Ev.race])
             [] Ev.ev = "engine" -> (Ev.mismatches # 0 \/ Ev.race) => Reject(l, [ev |-> "engine", race |-> Ev.race])
             [] OTHER -> Reject(l, [ev |-> Ev.ev])
Spec == Init /\ [][Next]_l
=================================================================================
