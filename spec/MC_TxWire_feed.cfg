SPECIFICATION Spec
CONSTANTS
  Mode = "feed"
  MaxOuts = 1
  MaxFeed = 9
INVARIANTS EmitCase Canonical
CHECK_DEADLOCK FALSE
