--------------------------------- MODULE MC_FeeStore ---------------------------------
(* All sequential call sequences up to Depth over a small menu; invariants of the store;   *)
(* every maximal sequence is emitted (with the specified replies) for replay.                *)
EXTENDS FeeStore, TLC, Json

CONSTANT Depth
F(s, d) == [t \in FeeTypes |-> IF t = "standard" THEN s ELSE IF t = "data" THEN d ELSE Absent]
Menu == {[k |-> "addDefault", m |-> "m2"], [k |-> "addMiner", m |-> "m2", obj |-> 1], [k |-> "addMiner", m |-> "m1", obj |-> 1],
         [k |-> "quote", m |-> "m2"], [k |-> "fee", m |-> "m1", t |-> "standard"], [k |-> "fee", m |-> "m2", t |-> "data"],
         [k |-> "fee", m |-> "m1", t |-> "other"],
         [k |-> "update", m |-> "m1", t |-> "standard", v |-> 11], [k |-> "update", m |-> "m2", t |-> "data", v |-> 12],
         [k |-> "update", m |-> "m2", t |-> "other", v |-> 13], [k |-> "update", m |-> "", t |-> "data", v |-> 14],
         [k |-> "update", m |-> "m1", t |-> "", v |-> 15], [k |-> "update", m |-> "m1", t |-> "data", v |-> Absent],
         [k |-> "qAdd", obj |-> 1, t |-> "standard", v |-> 21], [k |-> "qAdd", obj |-> 1, t |-> "other", v |-> 22],
         [k |-> "qFee", obj |-> 1, t |-> "standard"], [k |-> "qFee", obj |-> 1, t |-> "other"],
         [k |-> "qSetExp", obj |-> 1, x |-> 1], [k |-> "qSetExp", obj |-> 1, x |-> 2], [k |-> "qExp", obj |-> 1], [k |-> "qExpired", obj |-> 1],
         [k |-> "qMarshal", obj |-> 1], [k |-> "qUnmarshal", obj |-> 1, fees |-> F(31, Absent)], [k |-> "qUnmarshal", obj |-> 1, fees |-> F(32, 33)],
         [k |-> "qUnmarshal", obj |-> 1, fees |-> [F(34, 35) EXCEPT !["other"] = 36]]}

VARIABLES st, hist
vars == <<st, hist>>
Init == st = InitStore("m1") /\ hist = <<>>
Next == /\ Len(hist) < Depth
        /\ \E op \in Menu : LET r == Apply(st, op) IN st' = r.st /\ hist' = Append(hist, [op |-> op, ret |-> r.ret])
Spec == Init /\ [][Next]_vars

TypeOK == /\ \A k \in 1..NObjs : st.objs[k].exp \in 0..2
          /\ \A m \in Miners : st.miners[m].kind \in {"none", "anon", "ref"} /\ (st.miners[m].kind = "ref" => st.miners[m].k \in 1..NObjs)
\* a read returns the latest value written for that (quote, type); errors leave the store alone
ReadsSeeLastWrite == [][LET e == hist'[Len(hist')] IN
                          /\ ("err" \in DOMAIN e.ret => st' = st)
                          /\ (e.op.k \in {"quote", "fee", "qFee", "qExp", "qExpired", "qMarshal"} => st' = st)]_vars
\* a miner registered from a caller-held quote *is* that quote
RefSharing == \A m \in Miners : st.miners[m].kind = "ref" => QOf(st, m) = st.objs[st.miners[m].k]
EmitSeq == (Len(hist) = Depth) => PrintT(ToJson([k |-> "seq", calls |-> hist]))
=================================================================================
