SPECIFICATION Spec
CONSTANTS
  Mode = "tx"
  MaxOuts = 2
  MaxFeed = 0
INVARIANTS EmitCase RoundTrip AmbiguityIsReal PrefixFree TruncatedFails Canonical ListOfOne
CHECK_DEADLOCK FALSE
