------------------------------- MODULE Trace_BIP276 ------------------------------
(* Trace validation for C17: every recorded EncodeBIP276 / DecodeBIP276 / ValidateAddress *)
(* call of the real library must be what BIP276.tla defines.  `ck` on an event is the     *)
(* hash-oracle value (python hashlib) for the checksum of everything before the last 8    *)
(* characters of the event's text.                                                        *)
EXTENDS TraceLib, BIP276

VARIABLE l
Ev == Trace[l]

Rec(e) == [prefix |-> e.prefix, version |-> e.version, network |-> e.network, data |-> e.data]

EncOK(e) == IF ValidRec(Rec(e))
            THEN /\ Len(e.text) = Len(Payload(Rec(e))) + 8
                 /\ e.text = Encode(Rec(e), e.ck)
            ELSE e.text = ErrorText

DecOK(e) == \/ CaseVariant(e.text)                       \* outside the specification
            \/ /\ e.ok = Decodes(e.text, e.ck)
               /\ e.ok => Rec(e) = Fields(e.text)

ValOK(e) == CaseVariant(e.text) \/ e.ok = Decodes(e.text, e.ck)

Allowed(e) == CASE e.ev = "enc" -> EncOK(e)
                [] e.ev = "dec" -> DecOK(e)
                [] e.ev = "val" -> ValOK(e)
                [] OTHER -> FALSE

Init == l = 1
Next == /\ l <= Len(Trace)
        /\ l' = l + 1
        /\ Mark(l)
        /\ (~Allowed(Ev)) => Reject(l, [ev |-> Ev.ev,
                                         expect |-> IF Ev.ev \in {"dec", "val"} THEN Decodes(Ev.text, Ev.ck) ELSE TRUE])
Spec == Init /\ [][Next]_l
=================================================================================
