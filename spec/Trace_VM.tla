---------------------------------- MODULE Trace_VM ---------------------------------
(* Trace validation of script executions recorded from the real interpreter through its   *)
(* public debugger API (C05, C07, C08, C19) and calibration of ScriptVM.tla against the     *)
(* node's script vectors.  One trace =                                                      *)
(*    begin  (scripts, flags, era, tx context)                                              *)
(*    step*  (data and alt stack after each instruction the implementation executed,        *)
(*            logged as a difference: dk/ak unchanged bottom items, dn/an the items above)   *)
(*    end    (verdict ok / err / panic, bookkeeping observations)                           *)
(*  or a single  calib  event (scripts, flags, the node's expected verdict).                 *)
(* Every step event must be the specification's Step from the current state (same stacks).  *)
(* Tolerated, as the properties compare verdicts and stacks but not error codes or where an  *)
(* error is raised: the implementation stopping with an error earlier or later than the      *)
(* specification, provided the final verdicts agree.                                         *)
EXTENDS TraceLib, ScriptVM, DebugLifecycle

VARIABLES l, vm, cx, mode, nsteps
vars == <<l, vm, cx, mode, nsteps>>
Ev == Trace[l]

NoVM == [st |-> "none"]
Cx(e) == [genesis |-> e.genesis, f |-> e.f, lt |-> e.lt, seq |-> e.seq, ver |-> e.ver,
          sigmode |-> IF Has(e, "sx") THEN "oracle" ELSE "none", sx |-> IF Has(e, "sx") THEN e.sx ELSE <<>>]

HashKind(op) == CASE op = OP_RIPEMD160 -> "ripemd160" [] op = OP_SHA1 -> "sha1" [] op = OP_SHA256 -> "sha256"
                  [] op = OP_HASH160 -> "hash160" [] OTHER -> "sha256d"
TopOr(s) == IF s = <<>> THEN <<>> ELSE s[Len(s)]

\* self-tests of the debugger rules, evaluated at every start of a validation run: the rules accept the
\* documented shape and reject a moved position, a missing BeforeStep and a success without AfterSuccess
StepCalls == <<"BeforeExecute", "BeforeStep", "BeforeExecuteOpcode", "BeforeStackPush", "AfterStackPush",
               "AfterExecuteOpcode", "BeforeScriptChange", "AfterScriptChange", "AfterStep", "AfterExecute", "AfterSuccess">>
ASSUME Lifecycle(StepCalls, "ok") /\ ~Lifecycle(StepCalls, "err") /\ Lifecycle(<<>>, "err") /\ ~Lifecycle(<<>>, "ok")
ASSUME ~Lifecycle(SubSeq(StepCalls, 1, 10), "ok") /\ ~Lifecycle(<<"BeforeExecute", "BeforeExecuteOpcode">>, "err")
ASSUME OpPositions(StepCalls, <<0, 0, 0, 0, 0, 0, 1, 1000000, 1000000, 1000000, 1000000>>) = 0
ASSUME OpPositions(StepCalls, <<0, 0, 0, 0, 0, 1, 1, 1000000, 1000000, 1000000, 1000000>>) = 6
ASSUME OpPositions(StepCalls, <<0, 1, 0, 0, 0, 1, 1, 1000000, 1000000, 1000000, 1000000>>) = 3
ASSUME OpPositions(<<>>, <<>>) = 0

Init == l = 1 /\ vm = NoVM /\ cx = NoVM /\ mode = "idle" /\ nsteps = 0

\* every hash a signer embedded in a preimage is an oracle obligation
SignerHashes(e) == \A i \in 1..Len(e.sx.sigs) : \A j \in 1..Len(e.sx.sigs[i].hs) :
                      Emit([k |-> "hash", kind |-> "sha256d", in |-> e.sx.sigs[i].hs[j].in, out |-> e.sx.sigs[i].hs[j].out, ref |-> 0])
TrBegin == /\ Ev.ev = "begin"
           /\ Has(Ev, "sx") => SignerHashes(Ev)
           \* signing through the library fills in unlocking scripts and changes nothing else
           /\ (Has(Ev, "sx") /\ Has(Ev.sx, "frame") /\ ~Ev.sx.frame) => Reject(l, [cls |-> "signframe"])
           /\ cx' = Cx(Ev)
           /\ vm' = Begin(Ev.unlock, Ev.lock, Cx(Ev))
           /\ mode' = IF Excluded(Cx(Ev)) THEN "skip" ELSE "run"
           /\ nsteps' = 0

TrStep ==
    /\ Ev.ev = "step"
    /\ nsteps' = nsteps + 1
    /\ cx' = cx
    /\ IF mode # "run" THEN UNCHANGED <<vm, mode>>
       \* an item above one megabyte was produced (logged by its first bytes only): beyond the model, not judged
       ELSE IF Has(Ev, "big") THEN (mode' = "skip" /\ vm' = vm /\ Emit([k |-> "unmodelled", i |-> l]))
       ELSE IF vm.st # "run"
       THEN /\ Reject(l, [cls |-> "extra-step", st |-> vm.st])
            /\ mode' = "skip" /\ vm' = vm
       ELSE LET eds == SubSeq(vm.ds, 1, Ev.dk) \o Ev.dn       \* stacks are logged as differences
                eas == SubSeq(vm.as, 1, Ev.ak) \o Ev.an
                orc == [top |-> TopOr(eds)]
                v2 == Step(vm, cx, orc) IN
            /\ NeedsOracle(vm) =>
                 Emit([k |-> "hash", kind |-> HashKind(CurTok(vm).op), in |-> Top(vm.ds, 1), out |-> orc.top, ref |-> l])
            /\ vm' = v2
            /\ IF v2.st = "err" THEN mode' = "specerr"
               ELSE IF v2.st \in {"unmodelled", "toobig"} THEN (mode' = "skip" /\ Emit([k |-> "unmodelled", i |-> l]))
               ELSE IF Ev.dk <= Len(vm.ds) /\ Ev.ak <= Len(vm.as) /\ v2.ds = eds /\ v2.as = eas THEN mode' = "run"
               ELSE /\ Reject(l, [cls |-> "stack", op |-> CurTok(vm).op, sidx |-> vm.sidx, pc |-> vm.pc,
                                  expds |-> v2.ds, expas |-> v2.as, gotds |-> eds, gotas |-> eas])
                    /\ mode' = "skip"

StepBound == 2 * (vm.scripts[1].len + vm.scripts[2].len) + 4

TrEnd ==
    /\ Ev.ev = "end"
    /\ UNCHANGED <<vm, cx, nsteps>>
    /\ mode' = "idle"
    /\ (Ev.outcome \notin {"ok", "err"} /\ ~(mode = "run" /\ Verdict(Run(vm, cx), cx) = "toobig")) =>
          Reject(l, [cls |-> "total", outcome |-> Ev.outcome,
                     op |-> IF mode = "run" /\ vm.st = "run" /\ ~CurTok(vm).bad THEN CurTok(vm).op ELSE -1])
    /\ (mode # "idle" /\ vm.st # "none" /\ nsteps > StepBound) => Reject(l, [cls |-> "steps", n |-> nsteps])
    \* the same program without a debugger and with a debugger that scribbles over every snapshot
    /\ Has(Ev, "nodbg") =>
          /\ (Ev.nodbg \notin {"ok", "err"}) => Reject(l, [cls |-> "total", outcome |-> Ev.nodbg, op |-> -1, run |-> "nodbg"])
          /\ (Ev.scribble \notin {"ok", "err"}) => Reject(l, [cls |-> "total", outcome |-> Ev.scribble, op |-> -1, run |-> "scribble"])
          /\ (Ev.outcome \in {"ok", "err"} /\ ~(Ev.nodbg = Ev.outcome /\ Ev.nodbgErr = Ev.err)) =>
                Reject(l, [cls |-> "debug-changes-verdict", with |-> Ev.outcome, without |-> Ev.nodbg])
          /\ (Ev.outcome \in {"ok", "err"} /\ ~(Ev.scribble = Ev.outcome /\ Ev.scribbleErr = Ev.err /\ Ev.scribbleSameSnapshots /\ Ev.scribbleSameCalls)) =>
                Reject(l, [cls |-> "snapshot-not-isolated", with |-> Ev.outcome, scribbled |-> Ev.scribble,
                           snaps |-> Ev.scribbleSameSnapshots, calls |-> Ev.scribbleSameCalls])
    \* debug.NewDebugger fan-out: same verdict, and every handler of every attach point sees the same stream
    /\ (Has(Ev, "fanout") /\ Ev.outcome \in {"ok", "err"} /\ ~(Ev.fanout = Ev.outcome /\ Ev.fanoutErr = Ev.err /\ Ev.fanoutSameCalls)) =>
          Reject(l, [cls |-> "fanout", with |-> Ev.outcome, fan |-> Ev.fanout, calls |-> Ev.fanoutSameCalls])
    /\ (Has(Ev, "calls") /\ Ev.outcome \in {"ok", "err"} /\ ~Lifecycle(Ev.calls, Ev.outcome)) =>
          Reject(l, [cls |-> "lifecycle", final |-> Final(Ev.calls), n |-> Len(Ev.calls)])
    /\ (Has(Ev, "cpos") /\ Has(Ev, "calls") /\ Len(Ev.cpos) = Len(Ev.calls) /\ OpPositions(Ev.calls, Ev.cpos) # 0) =>
          Reject(l, [cls |-> "oppos", at |-> OpPositions(Ev.calls, Ev.cpos), call |-> Ev.calls[OpPositions(Ev.calls, Ev.cpos)]])
    \* an execution that stops with an error in front of a signature opcode which the specification
    \* executes without error (pushing false, say): "a false result rather than an error" (C06)
    /\ (Ev.outcome = "err" /\ mode = "run" /\ vm.st = "run" /\ ~CurTok(vm).bad
          /\ CurTok(vm).op \in {OP_CHECKSIG, OP_CHECKSIGVERIFY, OP_CHECKMULTISIG, OP_CHECKMULTISIGVERIFY}
          /\ Step(vm, cx, NoOracle).st \in {"run", "fin"}) =>
          Reject(l, [cls |-> "sig-error", op |-> CurTok(vm).op])
    /\ (~Ev.same \/ (Has(Ev, "nodbgSame") /\ ~Ev.nodbgSame)) => Reject(l, [cls |-> "sideeffect"])
    /\ IF Ev.outcome \notin {"ok", "err"} \/ mode \in {"skip", "idle"} THEN TRUE
       ELSE IF mode = "specerr"
       THEN (Ev.outcome # "err") => Reject(l, [cls |-> "verdict", spec |-> "err", impl |-> Ev.outcome, early |-> TRUE])
       ELSE LET fin == Verdict(Run(vm, cx), cx) IN
            IF fin \in {"unmodelled", "toobig"} THEN Emit([k |-> "unmodelled", i |-> l])
            ELSE (Ev.outcome # fin) => Reject(l, [cls |-> "verdict", spec |-> fin, impl |-> Ev.outcome, early |-> FALSE])

\* run to the end with a hash-oracle table (sequence of [kind, in, out], filled in by python over
\* a few rounds: a missing entry is reported as a query and the run stops as "unmodelled")
Lookup(tbl, kind, in) == LET hits == {i \in 1..Len(tbl) : tbl[i].kind = kind /\ tbl[i].in = in} IN
                         IF hits = {} THEN <<>> ELSE tbl[CHOOSE i \in hits : TRUE].out
RECURSIVE RunO(_, _, _, _)
RunO(v, c, tbl, ref) ==
    IF v.st # "run" THEN v
    ELSE IF NeedsOracle(v)
    THEN LET kind == HashKind(CurTok(v).op)
             out == Lookup(tbl, kind, Top(v.ds, 1)) IN
         IF out = <<>> THEN IF Emit([k |-> "query", i |-> ref, kind |-> kind, in |-> Top(v.ds, 1)])
                            THEN [v EXCEPT !.st = "unmodelled"] ELSE v
         ELSE RunO(Step(v, c, [top |-> out]), c, tbl, ref)
    ELSE RunO(Step(v, c, NoOracle), c, tbl, ref)

\* calibration: the specification run on its own against the node's expected verdict
TrCalib == /\ Ev.ev = "calib"
           /\ UNCHANGED <<vm, cx, mode, nsteps>>
           /\ LET c == Cx(Ev) IN
              IF Excluded(c) THEN Emit([k |-> "calib", i |-> l, spec |-> "excluded", expect |-> Ev.expect])
              ELSE Emit([k |-> "calib", i |-> l, spec |-> Verdict(RunO(Begin(Ev.unlock, Ev.lock, c), c, Ev.horc, l), c), expect |-> Ev.expect])

Next == /\ l <= Len(Trace)
        /\ l' = l + 1
        /\ Mark(l)
        /\ TrBegin \/ TrStep \/ TrEnd \/ TrCalib
Spec == Init /\ [][Next]_vars
=================================================================================
