SPECIFICATION Spec
CONSTANTS
  Family = "two3"
INVARIANTS Total StackBound CondShape ElementBound EmitCase
PROPERTIES Terminates
CHECK_DEADLOCK FALSE
