SPECIFICATION Spec
CONSTANTS
  Depth = 2
  MaxObjs = 2
INVARIANTS WireRoundTrip SizesAgree InputsWellFormed EmitSeq
PROPERTIES ErrorsAreClean PanicsAreClean OthersUntouched ChangePays CopiesEqual
CHECK_DEADLOCK FALSE
