------------------------------ MODULE Trace_FeeLin ------------------------------
(* Linearizability of recorded concurrent histories of the real FeeQuotes / FeeQuote        *)
(* objects with respect to FeeStore!Apply.                                                   *)
(*                                                                                          *)
(* One trace line = one history: the calls of every goroutine in program order, each with    *)
(* the value of a global atomic counter taken just before the call (inv) and just after      *)
(* its return (res), the arguments and the reply.  The specification keeps the store and,    *)
(* per goroutine, how many of its calls have taken effect; a call may take effect next only  *)
(* if no call of another goroutine that is still outstanding in the search returned before   *)
(* it was invoked (real-time order), and its reply must be the one FeeStore gives in the     *)
(* current store.  A history is accepted iff some order lets every call take effect          *)
(* (register 2 collects the accepted histories).  Histories with one goroutine are the       *)
(* sequential replays of MC_FeeStore.  -workers 1.                                           *)
EXTENDS TraceLib, FeeStore

VARIABLES h, pos, st
vars == <<h, pos, st>>

Hist == Trace[h]
NT == Len(Hist.threads)
Pending(th) == pos[th] <= Len(Hist.threads[th])
NextCall(th) == Hist.threads[th][pos[th]]
CanTakeEffect(th) == /\ Pending(th)
                     /\ \A u \in 1..NT : (u # th /\ Pending(u)) => ~(NextCall(u).res < NextCall(th).inv)

Start(n) == /\ h' = n
            /\ IF n <= Len(Trace)
               THEN pos' = [th \in 1..Len(Trace[n].threads) |-> 1] /\ st' = InitStore(Trace[n].first)
               ELSE pos' = <<>> /\ st' = InitStore("")

Lin(th) == /\ CanTakeEffect(th)
           /\ LET c == NextCall(th)  r == Apply(st, c.op) IN
              /\ RetOK(r.ret, c.ret)
              /\ st' = r.st /\ pos' = [pos EXCEPT ![th] = @ + 1] /\ h' = h

AllDone == \A th \in 1..NT : ~Pending(th)
Finish == AllDone /\ TLCSet(2, TLCGet(2) \cup {h}) /\ Start(h + 1)
\* whatever happens with history h, the next one is examined as well
Skip == (\A th \in 1..NT : pos[th] = 1) /\ ~AllDone /\ Start(h + 1)

MarkMax(i) == TLCSet(1, IF TLCGet(1) < i THEN i ELSE TLCGet(1))
Init == /\ h = 1 /\ TLCSet(2, {}) /\ TLCSet(1, 0)
        /\ IF Len(Trace) >= 1 THEN pos = [th \in 1..Len(Trace[1].threads) |-> 1] /\ st = InitStore(Trace[1].first)
           ELSE pos = <<>> /\ st = InitStore("")
Next == /\ h <= Len(Trace)
        /\ MarkMax(h)
        /\ (Finish \/ Skip \/ \E th \in 1..NT : Lin(th))
Spec == Init /\ [][Next]_vars

Linearized == Emit([k |-> "linearized", hs |-> TLCGet(2)]) /\ Consumed
=================================================================================
