---------------------------------- MODULE FeeMath ----------------------------------
(* Sizes, fees, change and funding arithmetic of the transaction builder, over an abstract  *)
(* transaction that keeps only what the arithmetic depends on:                               *)
(*   btx == [ins  : Seq([sats, ulen (unlocking script length), kind]),                       *)
(*           outs : Seq([sats, slen (locking script length), data : BOOLEAN])]               *)
(*   kind \in {"p2pkh", "inscr", "other", "none"}: the spent script is a P2PKH / P2PKH       *)
(*   inscription template, something else, or not recorded.                                  *)
(*   quote == [ss, sb, ds, db] : standard and data rate as satoshis per bytes (sb, db > 0)   *)
(* All quantities are small enough for TLC integers (the drivers keep bytes*rate < 2^31).    *)
EXTENDS ScriptClass

Sum(f(_), n) == FoldLeft(LAMBDA a, k : a + f(k), 0, Idx(n))
SumIn(t) == Sum(LAMBDA k : t.ins[k].sats, Len(t.ins))
SumOut(t) == Sum(LAMBDA k : t.outs[k].sats, Len(t.outs))

InSize(i) == 32 + 4 + VarIntLen(i.ulen) + i.ulen + 4
OutSize(o) == 8 + VarIntLen(o.slen) + o.slen
TotalSize(t) == 4 + VarIntLen(Len(t.ins)) + Sum(LAMBDA k : InSize(t.ins[k]), Len(t.ins)) +
                VarIntLen(Len(t.outs)) + Sum(LAMBDA k : OutSize(t.outs[k]), Len(t.outs)) + 4
DataSize(t) == Sum(LAMBDA k : IF t.outs[k].data THEN t.outs[k].slen ELSE 0, Len(t.outs))
Sizes(t) == [total |-> TotalSize(t), std |-> TotalSize(t) - DataSize(t), data |-> DataSize(t)]

\* a script is a data carrier iff it starts OP_RETURN or OP_FALSE OP_RETURN
IsDataHead(h) == (Len(h) >= 1 /\ h[1] = 106) \/ (Len(h) >= 2 /\ h[1] = 0 /\ h[2] = 106)
IsP2PKHTemplate(s) == Len(s) = 25 /\ s[1] = 118 /\ s[2] = 169 /\ s[3] = 20 /\ s[24] = 136 /\ s[25] = 172
OrdEnvelopeHead == <<0, 99, 3, 111, 114, 100, 81>>          \* OP_FALSE OP_IF push("ord") OP_1
IsInscriptionTemplate(s) == Len(s) > 32 /\ IsP2PKHTemplate(SubSeq(s, 1, 25)) /\ SubSeq(s, 26, 32) = OrdEnvelopeHead
\* what the size estimate supports: the exact P2PKH template, or what the library's inscription test accepts
KindOf(present, s) == IF ~present THEN "none"
                      ELSE IF IsP2PKHTemplate(s) THEN "p2pkh"
                      ELSE IF LibInscription(s) THEN "inscr" ELSE "other"

\* ---- estimate: unsigned inputs are assumed to get a 107-byte unlocking script -------------------
UnlockEstimate == 107
Estimable(t) == \A k \in 1..Len(t.ins) : t.ins[k].kind \in {"p2pkh", "inscr"}
Estimated(t) == [t EXCEPT !.ins = [k \in 1..Len(t.ins) |->
                     IF t.ins[k].ulen = 0 THEN [t.ins[k] EXCEPT !.ulen = UnlockEstimate] ELSE t.ins[k]]]
EstSizes(t) == Sizes(Estimated(t))

\* ---- fees ------------------------------------------------------------------------------------------
FeeOf(bytes, sat, per) == (bytes * sat) \div per
FeeFor(sz, q) == [std |-> FeeOf(sz.std, q.ss, q.sb), data |-> FeeOf(sz.data, q.ds, q.db),
                  total |-> FeeOf(sz.std, q.ss, q.sb) + FeeOf(sz.data, q.ds, q.db)]
Enough(t, sz, q) == SumIn(t) >= SumOut(t) /\ SumIn(t) - SumOut(t) >= FeeFor(sz, q).total
Deficit(t, q) == LET need == SumOut(t) + FeeFor(EstSizes(t), q).total IN
                 IF SumIn(t) >= need THEN 0 ELSE need - SumIn(t)

\* ---- change: the property-level relation ------------------------------------------------------------
Dust == 1
Slack(q) == FeeOf(9, q.ss, q.sb) + 9
\* dest == [kind : "new" | "existing", slen, data, idx (1-based, for "existing")]
WithChange(t, dest, amt) == IF dest.kind = "new" THEN [t EXCEPT !.outs = Append(@, [sats |-> amt, slen |-> dest.slen, data |-> dest.data])]
                            ELSE [t EXCEPT !.outs[dest.idx].sats = @ + amt]
\* what is left once the fee of the transaction *with* its change output is paid (may be negative)
RemainingAfterChangeFee(t, q, dest) == SumIn(t) - SumOut(t) - FeeFor(EstSizes(WithChange(t, dest, 0)), q).total

ChangeRel(pre, post, q, dest) ==
    /\ post.ins = pre.ins
    /\ SumOut(post) <= SumIn(post)
    /\ \/ \* no change added: nothing happened, and nothing worth adding was left
          /\ post = pre
          /\ RemainingAfterChangeFee(pre, q, dest) <= Dust
       \/ \* change added: exactly one output appended / increased, fee within [quote, quote + slack]
          /\ LET amt == IF dest.kind = "new"
                        THEN (IF Len(post.outs) = Len(pre.outs) + 1 THEN post.outs[Len(post.outs)].sats ELSE 0)
                        ELSE (IF Len(post.outs) = Len(pre.outs) /\ dest.idx \in 1..Len(pre.outs)
                              THEN post.outs[dest.idx].sats - pre.outs[dest.idx].sats ELSE 0)
             IN amt >= 1 /\ post = WithChange(pre, dest, amt)
          /\ LET left == SumIn(post) - SumOut(post)
                 need == FeeFor(EstSizes(post), q).total
             IN left >= need /\ left <= need + Slack(q)

\* ---- change: the algorithm (as repaired in /repo: bytes of the new output and of the count      *)
\* ---- varint growth are charged at the standard rate) --------------------------------------------
VarIntGrowth(n) == IF n = 252 THEN 2 ELSE IF n = 65535 THEN 2 ELSE 0
\* the fee the change computation reserves (a function of sizes and the quote only, not of amounts)
ChangeFees(pre, q, dest) ==
    LET sz == EstSizes(pre)
        extra == IF dest.kind = "new" THEN OutSize([slen |-> dest.slen]) + VarIntGrowth(Len(pre.outs)) ELSE 0
    IN FeeOf(sz.std + extra, q.ss, q.sb) + FeeOf(sz.data, q.ds, q.db)
ChangeAlg(pre, q, dest) ==
    IF SumIn(pre) < SumOut(pre) \/ ~Estimable(pre) THEN [ok |-> FALSE, post |-> pre]
    ELSE LET avail == SumIn(pre) - SumOut(pre)
             sz == EstSizes(pre)
             extra == IF dest.kind = "new" THEN OutSize([slen |-> dest.slen]) + VarIntGrowth(Len(pre.outs)) ELSE 0
             \* every byte of a new change output is charged at the standard rate, also when the
             \* destination is a data-carrier script (outside C10's quantifier "any non-data locking
             \* script"; with data rate > standard rate such a change underpays - kept as the code has it)
             fees == FeeOf(sz.std + extra, q.ss, q.sb) + FeeOf(sz.data, q.ds, q.db)
         IN IF avail <= fees \/ avail - fees <= Dust THEN [ok |-> TRUE, post |-> pre]
            ELSE [ok |-> TRUE, post |-> WithChange(pre, dest, avail - fees)]
=================================================================================
