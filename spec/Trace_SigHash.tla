------------------------------- MODULE Trace_SigHash ------------------------------
(* Trace validation for C02 / C03.                                                        *)
(*  pre  : CalcInputPreimage / CalcInputPreimageLegacy / CalcInputSignatureHash on a        *)
(*         projected transaction: result must be the specified preimage, the signature       *)
(*         hash its double SHA-256 (or the SINGLE constant), the transaction unchanged.      *)
(*  calib: a node-generated vector (raw tx, script code, index, 32-bit hash type): the       *)
(*         specification's own preimage is emitted for the hash oracle (python) to compare   *)
(*         with the node's digest - calibrates the spec, does not involve go-bt.             *)
(* Hash obligations  [k |-> "hash", in, out]  are verified by python hashlib.               *)
EXTENDS TraceLib, SigHash

VARIABLE l
Ev == Trace[l]

Oblige(in, out, ref) == Emit([k |-> "hash", kind |-> "sha256d", in |-> in, out |-> out, ref |-> ref])

\* actual bytes against a symbolic preimage; emits one obligation per hash segment
Match(segs, actual, ref) ==
    /\ Len(actual) = SymLen(segs)
    /\ FoldLeft(LAMBDA acc, k :
                  IF ~acc.ok THEN acc
                  ELSE LET s == segs[k]
                           part == Slice(actual, acc.pos, SegLen(s)) IN
                       [pos |-> acc.pos + SegLen(s),
                        ok |-> IF s.t = "lit" THEN part = s.b ELSE Oblige(s.of, part, ref)],
                [pos |-> 1, ok |-> TRUE], Idx(Len(segs))).ok

Spec4(e) == IF e.alg = "forkid" THEN PreimageForkID(e.tx, e.idx, e.ht4) ELSE PreimageLegacy(e.tx, e.idx, e.ht4)

PreOK(e) ==
    LET p == Spec4(e) IN
    /\ e.outcome \in {"ok", "err"}
    /\ (e.outcome = "ok") = p.ok
    /\ e.same                                        \* the transaction is unchanged
    /\ p.ok =>
         /\ Match(p.segs, e.pre, l)
         /\ IF e.alg = "legacy" /\ p.one
            THEN e.sigh = One256                     \* the constant is returned unhashed
            ELSE e.hasSigh => Oblige(e.pre, e.sigh, l)

\* calibration: parse the node's raw transaction with the specification's own parser
CalibTx(e) == LET p == ParseExact(e.raw) IN
              [p.tx EXCEPT !.ins = [k \in 1..Len(p.tx.ins) |->
                    p.tx.ins[k] @@ [hasid |-> TRUE, hasps |-> TRUE] ]]
WithCode(tx, i, code) == [tx EXCEPT !.ins[i + 1].ps = code]
Calib(e) == LET tx == WithCode(CalibTx(e), e.idx, e.code)
                p == IF e.alg = "forkid" THEN PreimageForkID(tx, e.idx, e.ht4) ELSE PreimageLegacy(tx, e.idx, e.ht4)
            IN Emit([k |-> "calib", i |-> l, ok |-> p.ok, one |-> (e.alg = "legacy" /\ p.ok /\ p.one),
                     segs |-> IF p.ok THEN p.segs ELSE <<>>, expect |-> e.expect])

Init == l = 1
Next == /\ l <= Len(Trace)
        /\ l' = l + 1
        /\ Mark(l)
        /\ CASE Ev.ev = "pre" -> (~PreOK(Ev)) => Reject(l, [ev |-> "pre", alg |-> Ev.alg, specok |-> Spec4(Ev).ok])
             [] Ev.ev = "calib" -> Calib(Ev)
             [] OTHER -> Reject(l, [ev |-> "unknown"])
Spec == Init /\ [][Next]_l
=================================================================================
