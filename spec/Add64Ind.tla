---------------------------- MODULE Add64Ind ----------------------------
(* Unbounded check (Apalache) of the 64-bit wrapping addition on little-endian byte strings used by    *)
(* TxBuild!Add64 (TotalInputSatoshis / TotalOutputSatoshis as Go uint64 sums): for all 16 bytes, the    *)
(* byte-wise ripple-carry sum is (value(a) + value(b)) mod 2^64.  (Powers of two are written as products *)
(* because TLC, which instantiates this module for the tie-in ASSUME, rejects literals above 2^31.)      *)
EXTENDS Integers, Sequences

VARIABLES
  \* @type: Seq(Int);
  a,
  \* @type: Seq(Int);
  b

\* @type: (Seq(Int)) => Int;
V(x) == x[1] + 256 * x[2] + 65536 * x[3] + 16777216 * x[4] + (65536 * 65536) * x[5] + (65536 * 65536 * 256) * x[6]
        + (65536 * 65536 * 65536) * x[7] + (65536 * 65536 * 65536 * 256) * x[8]

\* the ripple-carry sum written out (8 positions)
\* @type: (Seq(Int), Seq(Int)) => Seq(Int);
Add(x, y) ==
    LET s1 == x[1] + y[1]
        s2 == x[2] + y[2] + s1 \div 256
        s3 == x[3] + y[3] + s2 \div 256
        s4 == x[4] + y[4] + s3 \div 256
        s5 == x[5] + y[5] + s4 \div 256
        s6 == x[6] + y[6] + s5 \div 256
        s7 == x[7] + y[7] + s6 \div 256
        s8 == x[8] + y[8] + s7 \div 256
    IN <<s1 % 256, s2 % 256, s3 % 256, s4 % 256, s5 % 256, s6 % 256, s7 % 256, s8 % 256>>

Bytes8 == [1..8 -> 0..255]
\* @type: (Int -> Int) => Seq(Int);
AsSeq(f) == <<f[1], f[2], f[3], f[4], f[5], f[6], f[7], f[8]>>
Init == \E f \in Bytes8, g \in Bytes8 : a = AsSeq(f) /\ b = AsSeq(g)
Next == \E f \in Bytes8, g \in Bytes8 : a' = AsSeq(f) /\ b' = AsSeq(g)

Wraps == V(Add(a, b)) = (V(a) + V(b)) % (65536 * 65536 * 65536 * 65536)
=========================================================================
