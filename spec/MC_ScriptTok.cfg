SPECIFICATION Spec
CONSTANTS
  MaxLen = 4
INVARIANTS UnparseWellFormed TruncationDetected PartsRoundTrip EmitCase
CHECK_DEADLOCK FALSE
