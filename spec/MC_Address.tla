--------------------------------- MODULE MC_Address ---------------------------------
(* Design check of the Base58 code in Address.tla: Decode58 and Encode58 are inverse on all  *)
(* small payloads (incl. leading zeros) and on sample 25-byte payloads; typo neighbourhoods   *)
(* of an encoded payload change the decoded bytes.                                            *)
EXTENDS Address, TLC, Json

Payloads == UNION {[1..n -> {0, 1, 57, 58, 255}] : n \in 0..3}
            \cup {<<0>> \o Rep(k, 20) \o <<1, 2, 3, 4>> : k \in {0, 7, 255}}
            \cup {<<111>> \o [i \in 1..20 |-> i] \o <<9, 9, 9, 9>>}
VARIABLES p, s, phase
vars == <<p, s, phase>>
Init == p \in Payloads /\ s = <<>> /\ phase = "new"
Enc == phase = "new" /\ s' = Encode58(p) /\ phase' = "enc" /\ UNCHANGED p
Typo == /\ phase = "enc" /\ Len(s) > 0 /\ phase' = "typo" /\ UNCHANGED p
        /\ \/ \E i \in 1..Len(s), c \in {49, 50, 122, 65} : c # s[i] /\ s' = [s EXCEPT ![i] = c]
           \/ \E i \in 1..Len(s) : s' = SubSeq(s, 1, i - 1) \o SubSeq(s, i + 1, Len(s))
           \/ \E i \in 0..Len(s) : s' = SubSeq(s, 1, i) \o <<49>> \o SubSeq(s, i + 1, Len(s))
Next == Enc \/ Typo
Spec == Init /\ [][Next]_vars
InverseOK == phase = "enc" => (Decode58(s).ok /\ Decode58(s).b = p)
Canonical == phase \in {"enc", "typo"} => (Decode58(s).ok => Encode58(Decode58(s).b) = s)
TypoChanges == phase = "typo" => (Decode58(s).b # p)
=================================================================================
