SPECIFICATION Spec
CONSTANTS
  NThreads = 3
INVARIANTS MutexInv LockBalanced EmitRaced
PROPERTIES AllReturn
