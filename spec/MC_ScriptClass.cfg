SPECIFICATION Spec
INVARIANTS Disjoint InstancesRecognised EmitCase
CHECK_DEADLOCK FALSE
