SPECIFICATION Spec
CONSTANTS
  MaxLen = 5
INVARIANTS UnparseWellFormed TruncationDetected PartsRoundTrip EmitCase
CHECK_DEADLOCK FALSE
