SPECIFICATION Spec
CONSTANTS
  Vals = {0, 1, 2, 9, 10, 16, 171, 255, 256}
  Alphabet = {48, 102, 70, 103, 43}
INVARIANTS EmitCase
CHECK_DEADLOCK FALSE
