--------------------------------- MODULE FeeQuoteConc ---------------------------------
(* Threads calling methods of one FeeQuotes value that contains one FeeQuote, with an         *)
(* explicit model of the two RWMutexes.  Each method is the sequence of steps the code         *)
(* performs - lock / rlock / unlock / runlock of a mutex, read / write of a guarded field -    *)
(* and that sequence is a PARAMETER: Disc maps a method name to the discipline *observed* in   *)
(* the real code through the verif hooks (single-threaded recording).  A nested call appears    *)
(* inline (FeeQuotes.Fee contains FeeQuote.Fee's steps).                                        *)
(* A data race = two threads inside access steps of the same field, at least one a write.       *)
EXTENDS Integers, Sequences, FiniteSets, TLC

CONSTANTS Threads, Disc                 \* Disc : method name -> sequence of [op, on]
Methods == DOMAIN Disc
Mutexes == {"fq.mu", "fqs.mu"}

VARIABLES calls,     \* calls[t] : the method thread t runs (chosen initially, never changes)
          pc,        \* pc[t] : index of the next step of t's method (Len+1 = returned)
          writer,    \* writer[m] : thread holding m exclusively, or "none"
          readers,   \* readers[m] : threads holding m shared
          inacc,     \* inacc[t] : the access step t is in the middle of, or the empty record
          raced      \* pairs of (method, field) observed racing
vars == <<calls, pc, writer, readers, inacc, raced>>

None == [on |-> "none", op |-> "none"]
StepOf(t) == Disc[calls[t]][pc[t]]
Done(t) == pc[t] > Len(Disc[calls[t]])

Init == /\ calls \in [Threads -> Methods]
        /\ pc = [t \in Threads |-> 1]
        /\ writer = [m \in Mutexes |-> "none"]
        /\ readers = [m \in Mutexes |-> {}]
        /\ inacc = [t \in Threads |-> None]
        /\ raced = {}

Conflicts(t, s) == {u \in Threads \ {t} : inacc[u].on = s.on /\ (inacc[u].op = "write" \/ s.op = "write")}

\* an access takes two steps (begin, end) so that two threads can be inside it together
Begin(t) == /\ ~Done(t) /\ inacc[t] = None /\ StepOf(t).op \in {"read", "write"}
            /\ inacc' = [inacc EXCEPT ![t] = StepOf(t)]
            /\ raced' = raced \cup {<<calls[t], calls[u], StepOf(t).on>> : u \in Conflicts(t, StepOf(t))}
            /\ UNCHANGED <<pc, writer, readers, calls>>
End(t) == /\ inacc[t] # None
          /\ inacc' = [inacc EXCEPT ![t] = None]
          /\ pc' = [pc EXCEPT ![t] = @ + 1]
          /\ UNCHANGED <<writer, readers, raced, calls>>
Lock(t) == /\ ~Done(t) /\ inacc[t] = None /\ StepOf(t).op = "lock"
           /\ LET m == StepOf(t).on IN
              /\ writer[m] = "none" /\ readers[m] = {}
              /\ writer' = [writer EXCEPT ![m] = t]
           /\ pc' = [pc EXCEPT ![t] = @ + 1] /\ UNCHANGED <<readers, inacc, raced, calls>>
RLock(t) == /\ ~Done(t) /\ inacc[t] = None /\ StepOf(t).op = "rlock"
            /\ LET m == StepOf(t).on IN
               /\ writer[m] = "none"
               /\ readers' = [readers EXCEPT ![m] = @ \cup {t}]
            /\ pc' = [pc EXCEPT ![t] = @ + 1] /\ UNCHANGED <<writer, inacc, raced, calls>>
Unlock(t) == /\ ~Done(t) /\ inacc[t] = None /\ StepOf(t).op = "unlock"
             /\ writer' = [writer EXCEPT ![StepOf(t).on] = "none"]
             /\ pc' = [pc EXCEPT ![t] = @ + 1] /\ UNCHANGED <<readers, inacc, raced, calls>>
RUnlock(t) == /\ ~Done(t) /\ inacc[t] = None /\ StepOf(t).op = "runlock"
              /\ readers' = [readers EXCEPT ![StepOf(t).on] = @ \ {t}]
              /\ pc' = [pc EXCEPT ![t] = @ + 1] /\ UNCHANGED <<writer, inacc, raced, calls>>

Terminated == (\A t \in Threads : Done(t)) /\ UNCHANGED vars
Next == (\E t \in Threads : Begin(t) \/ End(t) \/ Lock(t) \/ RLock(t) \/ Unlock(t) \/ RUnlock(t)) \/ Terminated
Spec == Init /\ [][Next]_vars /\ WF_vars(Next)

\* ---- properties -----------------------------------------------------------------------------------
NoRace == raced = {}
MutexInv == \A m \in Mutexes : writer[m] = "none" \/ readers[m] = {}
LockBalanced == (\A t \in Threads : Done(t)) => (\A m \in Mutexes : writer[m] = "none" /\ readers[m] = {})
\* every call returns (no deadlock between the two mutexes)
AllReturn == <>(\A t \in Threads : Done(t))
=================================================================================
