------------------------------- MODULE Trace_Script -------------------------------
(* Trace validation for C13 (script codecs) - every decoder / encoder of the library run on  *)
(* one script and judged by ScriptTok.tla.                                                   *)
(*   script   : DecodeParts, DefaultOpcodeParser.Parse/Unparse, hex, JSON, ToASM/NewFromASM  *)
(*   encparts : EncodeParts on a list of non-empty items, decoded back                       *)
EXTENDS TraceLib, ScriptTok

VARIABLE l
Ev == Trace[l]

SpecToks(s) == LET t == Tokenize(s) IN [k \in 1..Len(t) |-> [op |-> t[k].op, data |-> t[k].data]]

ScriptOK(e) ==
    LET s == e.s
        wf == WellFormed(s)
        t == Tokenize(s)
        \* a malformed push that no tokeniser can skip: no OP_RETURN token in front of it
        noReturn == ~HasOp(t, OP_RETURN)
    IN /\ e.dp.ok = wf                                   \* truncated pushes are errors
       /\ wf => e.dp.parts = PartsOf(t)
       /\ (wf /\ noReturn) => (e.parse.ok /\ e.parse.toks = SpecToks(s))        \* the two tokenisers agree
       /\ wf => e.parse.ok
       /\ e.parse.ok => e.parse.unparse = s                                       \* parse / unparse identity
       /\ (~wf /\ noReturn) => ~e.parse.ok
       /\ e.hexrt = s /\ e.jsonrt = s
       /\ AsmSafe(s) => (e.asm.ok /\ e.asm.rt = s)

EncOK(e) == /\ e.ok
            /\ e.enc = EncodeParts(e.items)
            /\ e.dec.ok /\ e.dec.parts = e.items

Init == l = 1
Next == /\ l <= Len(Trace)
        /\ l' = l + 1
        /\ Mark(l)
        /\ CASE Ev.ev = "script" -> (~ScriptOK(Ev)) => Reject(l, [ev |-> "script", wf |-> WellFormed(Ev.s), asmsafe |-> AsmSafe(Ev.s),
                                                                    ret |-> HasOp(Tokenize(Ev.s), OP_RETURN)])
             [] Ev.ev = "encparts" -> (~EncOK(Ev)) => Reject(l, [ev |-> "encparts"])
             [] OTHER -> Reject(l, [ev |-> Ev.ev])
Spec == Init /\ [][Next]_l
=================================================================================
