----------------------------------- MODULE SigCheck -----------------------------------
(* OP_CHECKSIG(VERIFY) / OP_CHECKMULTISIG(VERIFY) per the BSV node rules.                    *)
(* Everything about a signature that is a function of its bytes is computed here from the    *)
(* bytes: strict DER shape, low S, hash type, public-key shape.  Only ECDSA itself is         *)
(* abstract: the context carries, for every signature the scenario created, who signed what   *)
(*     sx.sigs : Seq([bytes (DER part + hash type byte), signer (key id, 0 = nobody),          *)
(*                    pre (the preimage bytes whose double SHA-256 was signed)])               *)
(*     sx.keys : Seq([bytes, id])     the encodings of the scenario's public keys               *)
(*     sx.tx, sx.idx                  the spending transaction (SigHash record) and input       *)
(* A signature verifies for a key and a required preimage iff that key's owner signed exactly  *)
(* that preimage (unforgeability / collision freedom are the stated assumptions).               *)
EXTENDS ScriptTok, SigHash, TLC, Json

\* ---- byte-level encoding predicates -------------------------------------------------------------
\* BIP66 strict DER: 0x30 len 0x02 rlen R 0x02 slen S (no hash type byte here)
StrictDER(s) ==
    /\ Len(s) >= 8 /\ Len(s) <= 72
    /\ s[1] = 48 /\ s[2] = Len(s) - 2
    /\ LET rlen == s[4] IN
       /\ 5 + rlen < Len(s)                         \* S type and S length exist
       /\ LET slen == s[6 + rlen] IN
          /\ rlen + slen + 6 = Len(s)
          /\ s[3] = 2 /\ rlen # 0 /\ s[5] < 128
          /\ (rlen > 1 /\ s[5] = 0) => s[6] >= 128
          /\ s[5 + rlen] = 2 /\ slen # 0 /\ s[7 + rlen] < 128
          /\ (slen > 1 /\ s[7 + rlen] = 0) => s[8 + rlen] >= 128
\* half of the secp256k1 group order, big endian
HalfOrder == <<127, 255, 255, 255, 255, 255, 255, 255, 255, 255, 255, 255, 255, 255, 255, 255,
               93, 87, 110, 115, 87, 164, 80, 29, 223, 233, 47, 70, 104, 27, 32, 160>>
\* big-endian unsigned comparison a <= b (leading zeros allowed)
StripZ(a) == LET nz == {i \in 1..Len(a) : a[i] # 0} IN IF nz = {} THEN <<>> ELSE SubSeq(a, CHOOSE i \in nz : \A j \in nz : i <= j, Len(a))
LeqBE(a, b) == LET x == StripZ(a)  y == StripZ(b) IN
               IF Len(x) # Len(y) THEN Len(x) < Len(y)
               ELSE LET df == {i \in 1..Len(x) : x[i] # y[i]} IN
                    df = {} \/ (LET k == CHOOSE i \in df : \A j \in df : i <= j IN x[k] < y[k])
SOf(s) == LET rlen == s[4] IN SubSeq(s, 7 + rlen, 6 + rlen + s[6 + rlen])
LowS(s) == LeqBE(SOf(s), HalfOrder)
DefinedHashType(ht) == LET b == ht % 64 IN (IF b >= 128 THEN b - 128 ELSE b) \in {1, 2, 3}   \* ht without 0x80 and 0x40
BaseNoAcpNoFork(ht) == (ht % 128) % 64
PubKeyShapeOK(k) == (Len(k) = 33 /\ k[1] \in {2, 3}) \/ (Len(k) = 65 /\ k[1] = 4)

\* result of the encoding checks for (signature with hash type, key): "ok" or "err"
SigEncodingOK(full, f) ==
    IF full = <<>> THEN TRUE
    ELSE LET der == SubSeq(full, 1, Len(full) - 1)
             ht == full[Len(full)] IN
         /\ (f.dersig \/ f.lows \/ f.strictenc) => StrictDER(der)
         /\ f.lows => (StrictDER(der) /\ LowS(der))
         /\ f.strictenc => (BaseNoAcpNoFork(ht) \in {1, 2, 3} /\ (((ht \div 64) % 2 = 1) <=> f.forkid))
KeyEncodingOK(k, f) == f.strictenc => PubKeyShapeOK(k)

\* ---- script code ------------------------------------------------------------------------------------
\* tokens after the last executed OP_CODESEPARATOR of the current script
SubScript(toks, csep) == SubSeq(toks, csep + 1, Len(toks))
UsesForkDigest(full, f) == full # <<>> /\ f.forkid /\ (full[Len(full)] \div 64) % 2 = 1
\* legacy clean-up: drop pushes that are exactly the minimally pushed signature, and code separators
IsSigPush(t, full) == IsDataPush(t.op) /\ t.data = full /\ UnparseTok(t) = PushPrefix(Len(full)) \o full
Cleanup(toks, full) == SelectSeq(toks, LAMBDA t : ~IsSigPush(t, full))
DropSeparators(toks) == SelectSeq(toks, LAMBDA t : t.op # OP_CODESEPARATOR)

\* the preimage a signature `full` must have signed for this input given the script code tokens
\* (after all clean-ups were applied to `code`)
Required(sx, code, full, f) ==
    LET ht4 == <<full[Len(full)], 0, 0, 0>>
        tx1 == [sx.tx EXCEPT !.ins[sx.idx + 1].ps = Unparse(IF UsesForkDigest(full, f) THEN code ELSE DropSeparators(code))]
    IN IF UsesForkDigest(full, f) THEN PreimageForkID(tx1, sx.idx, ht4) ELSE PreimageLegacy(tx1, sx.idx, ht4)

\* concrete preimage bytes against the symbolic required preimage.  The 32-byte hashes embedded in a
\* preimage are resolved through the signer's table hs of (what was hashed -> 32 bytes), every entry of
\* which is an oracle obligation discharged by python hashlib when the trace begins: a required hash
\* input that the signer never hashed cannot equal any embedded hash (collision freedom).
HashOut(hs, of) == LET hits == {i \in 1..Len(hs) : hs[i].in = of} IN IF hits = {} THEN <<>> ELSE hs[CHOOSE i \in hits : TRUE].out
MatchPre(segs, actual, hs) ==
    /\ Len(actual) = SymLen(segs)
    /\ FoldLeft(LAMBDA acc, k :
                  IF ~acc.ok THEN acc
                  ELSE LET sg == segs[k]
                           part == Slice(actual, acc.pos, SegLen(sg)) IN
                       [pos |-> acc.pos + SegLen(sg),
                        ok |-> IF sg.t = "lit" THEN part = sg.b ELSE (HashOut(hs, sg.of) # <<>> /\ HashOut(hs, sg.of) = part)],
                [pos |-> 1, ok |-> TRUE], Idx(Len(segs))).ok

KeyId(sx, k) == LET hits == {i \in 1..Len(sx.keys) : sx.keys[i].bytes = k} IN
                IF hits = {} THEN 0 ELSE sx.keys[CHOOSE i \in hits : TRUE].id
\* ECDSA, abstractly
Verifies(sx, full, key, code, f) ==
    /\ full # <<>> /\ KeyId(sx, key) # 0
    /\ LET req == Required(sx, code, full, f) IN
       /\ req.ok
       /\ \E i \in 1..Len(sx.sigs) : /\ sx.sigs[i].bytes = full
                                      /\ sx.sigs[i].signer = KeyId(sx, key)
                                      /\ MatchPre(req.segs, sx.sigs[i].pre, sx.sigs[i].hs)

\* ---- OP_CHECKSIG: [k |-> "err"] or [k |-> "ok", res |-> BOOLEAN] ------------------------------------------
CheckSig(sx, toks, csep, full, key, f) ==
    LET sub == SubScript(toks, csep)
        code == IF UsesForkDigest(full, f) THEN sub ELSE Cleanup(sub, full)
    IN IF ~SigEncodingOK(full, f) \/ ~KeyEncodingOK(key, f) THEN [k |-> "err"]
       ELSE LET ok == Verifies(sx, full, key, code, f) IN
            IF ~ok /\ f.nullfail /\ full # <<>> THEN [k |-> "err"] ELSE [k |-> "ok", res |-> ok]

\* ---- OP_CHECKMULTISIG --------------------------------------------------------------------------------------
\* sigs, keys: in the order the interpreter visits them (top of stack first)
\* the walk itself, generic in what "encodings are fine" and "verifies" mean (MC_SigCheck model-checks
\* it against its declarative meaning with table-driven predicates)
RECURSIVE WalkG(_, _, _, _, _, _)
WalkG(Enc(_, _), Ver(_, _), ns, nk, isig, ikey) ==
    LET nsig == ns - isig + 1
        nkey == nk - ikey + 1
    IN IF nsig = 0 THEN [k |-> "ok", res |-> TRUE]
       ELSE IF nsig > nkey THEN [k |-> "ok", res |-> FALSE]
       ELSE IF ~Enc(isig, ikey) THEN [k |-> "err"]
       ELSE IF Ver(isig, ikey) THEN WalkG(Enc, Ver, ns, nk, isig + 1, ikey + 1)
       ELSE WalkG(Enc, Ver, ns, nk, isig, ikey + 1)
Walk(sx, code, sigs, keys, isig, ikey, f) ==
    WalkG(LAMBDA i, j : SigEncodingOK(sigs[i], f) /\ KeyEncodingOK(keys[j], f),
          LAMBDA i, j : Verifies(sx, sigs[i], keys[j], code, f), Len(sigs), Len(keys), isig, ikey)

CheckMultiSig(sx, toks, csep, sigs, keys, dummy, f) ==
    LET sub == SubScript(toks, csep)
        code == FoldLeft(LAMBDA c, i : IF UsesForkDigest(sigs[i], f) THEN c ELSE Cleanup(c, sigs[i]), sub, Idx(Len(sigs)))
        w == Walk(sx, code, sigs, keys, 1, 1, f)
    IN IF w.k = "err" THEN w
       ELSE IF ~w.res /\ f.nullfail /\ (\E i \in 1..Len(sigs) : sigs[i] # <<>>) THEN [k |-> "err"]
       ELSE IF f.nulldummy /\ dummy # <<>> THEN [k |-> "err"]
       ELSE w
=================================================================================
