------------------------------------ MODULE Fund ------------------------------------
(* Tx.Fund as a protocol between the library and an arbitrary UTXO supplier.                 *)
(* State  fs == [tx, calls : Seq(deficit passed to the supplier), rest : replies the         *)
(*               supplier will still give, pc : "est" | "call" | "done", deficit, outcome]    *)
(* A reply is [kind : "batch" | "noutxo" | "err", utxos : Seq([id, vout, sats, kind])].       *)
(* FundStep is the one transition function; FundRun iterates it to completion (used by the   *)
(* trace specification); MC_Fund explores it step by step.                                    *)
EXTENDS FeeMath

FinalSeq == <<255, 255, 255, 255>>
ToInput(u) == [sats |-> u.sats, ulen |-> 0, kind |-> u.kind, id |-> u.id, vout |-> u.vout, seq |-> FinalSeq]

FundInit(tx, rest) == [tx |-> tx, calls |-> <<>>, rest |-> rest, pc |-> "est", deficit |-> 0, outcome |-> "none"]

FundStep(fs, q) ==
    IF fs.pc = "est"
    THEN IF ~Estimable(fs.tx) THEN [fs EXCEPT !.pc = "done", !.outcome = "esterr"]
         ELSE LET d == Deficit(fs.tx, q) IN
              IF d = 0 THEN [fs EXCEPT !.pc = "done", !.outcome = "ok", !.deficit = 0]
              ELSE [fs EXCEPT !.pc = "call", !.deficit = d]
    ELSE IF fs.pc = "call"
    THEN LET r == IF fs.rest = <<>> THEN [kind |-> "noutxo", utxos |-> <<>>] ELSE Head(fs.rest)
             f1 == [fs EXCEPT !.calls = Append(@, fs.deficit), !.rest = IF fs.rest = <<>> THEN <<>> ELSE Tail(fs.rest)]
         IN IF r.kind = "noutxo" THEN [f1 EXCEPT !.pc = "done", !.outcome = "insufficient"]
            ELSE IF r.kind = "err" THEN [f1 EXCEPT !.pc = "done", !.outcome = "err"]
            ELSE [f1 EXCEPT !.pc = "est", !.tx.ins = @ \o [k \in 1..Len(r.utxos) |-> ToInput(r.utxos[k])]]
    ELSE fs

RECURSIVE FundRun(_, _)
FundRun(fs, q) == IF fs.pc = "done" THEN fs ELSE FundRun(FundStep(fs, q), q)

Covered(tx, q) == SumIn(tx) >= SumOut(tx) + FeeFor(EstSizes(tx), q).total
=================================================================================
