SPECIFICATION Spec
CONSTANTS
  Family = "shift"
INVARIANTS Total StackBound CondShape ElementBound EmitCase
PROPERTIES Terminates
CHECK_DEADLOCK FALSE
