-------------------------------- MODULE MC_ScriptVM --------------------------------
(* Exhaustive models of the interpreter over generated program families (both eras, with    *)
(* and without MINIMALDATA / MINIMALIF).  Every initial state is a program; Next is the      *)
(* deterministic Step.  Checked on every reachable state: totality (some outcome is always   *)
(* defined), the termination measure, the pre-Genesis stack bound, conditional-stack shape.  *)
(* Every program is also emitted as a case for the real engine (direction A).                *)
EXTENDS ScriptVM, TLC, Json

CONSTANTS Family

\* ---- operands ----------------------------------------------------------------------------------
\* numbers beyond 32 / 64 bits (post-Genesis operands): 2^31, 2^32, 2^63, 2^64, -2^63
Wide == {<<0, 0, 0, 128, 0>>, <<0, 0, 0, 0, 1>>, <<0, 0, 0, 0, 0, 0, 0, 128, 0>>, <<0, 0, 0, 0, 0, 0, 0, 0, 1>>, <<0, 0, 0, 0, 0, 0, 0, 128, 128>>}
Edge == Wide \cup {<<>>, <<0>>, <<128>>, <<1>>, <<129>>, <<127>>, <<255>>, <<2>>, <<16>>, <<17>>,
         <<0, 1>>, <<0, 128>>, <<1, 0>>, <<255, 127>>, <<255, 255>>, <<255, 0>>, <<128, 0>>,
         <<255, 255, 255, 127>>, <<255, 255, 255, 255>>, <<0, 0, 0, 128>>, <<1, 0, 0, 0>>,
         <<0, 0, 0, 128, 0>>, <<255, 255, 255, 255, 127>>,
         <<1, 2, 3, 4, 5, 6, 7, 8>>, <<255, 255, 255, 255, 255, 255, 255, 255, 127>>}
Small == {<<>>, <<128>>, <<1>>, <<129>>, <<2>>, <<3>>, <<255>>, <<0, 1>>, <<1, 0>>, <<255, 255, 255, 127>>, <<0, 0, 0, 128, 0>>}
Blobs == {<<>>, <<171>>, <<18, 52>>, <<128, 0, 1>>, <<255, 0, 255, 129>>, <<1, 2, 3, 4, 5, 6, 7, 8, 9>>}

\* shortest legal push of an item (so that MINIMALDATA programs get past the push)
PushMin(x) == IF x = <<>> THEN <<OP_0>>
              ELSE IF Len(x) = 1 /\ x[1] >= 1 /\ x[1] <= 16 THEN <<OP_1 + x[1] - 1>>
              ELSE IF x = <<129>> THEN <<OP_1NEGATE>>
              ELSE PushPrefix(Len(x)) \o x

UnaryOps == {OP_1ADD, OP_1SUB, OP_NEGATE, OP_ABS, OP_NOT, OP_0NOTEQUAL, OP_SIZE, OP_INVERT, OP_BIN2NUM, OP_IFDUP,
             OP_DUP, OP_DROP, OP_DEPTH, OP_VERIFY, OP_TOALTSTACK, OP_2MUL, OP_2DIV, OP_RESERVED, OP_VER, OP_NOP,
             OP_NOP1, OP_CLTV, OP_CSV, OP_IF, OP_NOTIF, 186, 255}
BinaryOps == {OP_ADD, OP_SUB, OP_MUL, OP_DIV, OP_MOD, OP_LSHIFT, OP_RSHIFT, OP_BOOLAND, OP_BOOLOR, OP_NUMEQUAL,
              OP_NUMEQUALVERIFY, OP_NUMNOTEQUAL, OP_LESSTHAN, OP_GREATERTHAN, OP_LESSTHANOREQUAL,
              OP_GREATERTHANOREQUAL, OP_MIN, OP_MAX, OP_CAT, OP_SPLIT, OP_NUM2BIN, OP_AND, OP_OR, OP_XOR, OP_EQUAL,
              OP_EQUALVERIFY, OP_PICK, OP_ROLL, OP_SWAP, OP_NIP, OP_OVER, OP_TUCK, OP_2DROP, OP_2DUP}
IndexOps == {OP_PICK, OP_ROLL, OP_SPLIT, OP_NUM2BIN, OP_LSHIFT, OP_RSHIFT}
TernaryOps == {OP_WITHIN, OP_ROT, OP_3DUP, OP_PICK, OP_ROLL, OP_2OVER, OP_2SWAP, OP_2ROT}
FlowAlpha == {<<OP_0>>, <<OP_1>>, <<OP_IF>>, <<OP_NOTIF>>, <<OP_ELSE>>, <<OP_ENDIF>>, <<OP_RETURN>>, <<OP_VERIF>>, <<1, 2>>}

SeqsUpTo(SS, n) == UNION {[1..k -> SS] : k \in 0..n}

\* aliasing family (C08): an item is copied (or split), one copy transformed, every item compared
AliasItems == {<<1, 0, 128>>, <<5, 0>>, <<255, 255, 0, 128>>, <<127>>, <<1, 2, 3>>, <<0, 0, 1, 0>>}
Prov == {<<OP_DUP>>, <<OP_0, OP_PICK>>, <<OP_1, OP_PICK>>, <<OP_OVER>>, <<OP_TUCK>>, <<OP_2DUP>>, <<OP_IFDUP>>,
         <<OP_DUP, OP_TOALTSTACK>>, <<OP_DUP, OP_SWAP>>, <<OP_2DUP, OP_2OVER>>, <<OP_DUP, OP_DUP, OP_ROT>>, <<OP_3DUP>>,
         <<OP_1, OP_SPLIT>>, <<OP_1, OP_SPLIT, OP_SWAP>>, <<82, OP_SPLIT>>, <<OP_DUP, OP_0, OP_ROLL>>, <<OP_DUP, OP_1, OP_ROLL>>}
Trans == {<<OP_1ADD>>, <<OP_1SUB>>, <<OP_NEGATE>>, <<OP_ABS>>, <<OP_NOT>>, <<OP_0NOTEQUAL>>, <<OP_INVERT>>, <<OP_BIN2NUM>>,
          <<OP_1, OP_LSHIFT>>, <<OP_1 + 8, OP_RSHIFT>>, <<OP_1 + 7, OP_LSHIFT>>, <<OP_1, OP_RSHIFT>>, <<OP_0, OP_LSHIFT>>,
          <<OP_1 + 5, OP_NUM2BIN>>, <<OP_1 + 3, OP_NUM2BIN>>, <<1, 7, OP_CAT>>, <<OP_1, OP_SPLIT>>, <<OP_SIZE>>,
          <<OP_DUP, OP_AND>>, <<OP_DUP, OP_INVERT, OP_XOR>>, <<OP_DUP, OP_INVERT, OP_OR>>,
          \* the same with the copied item as the *top* operand (a result built in either operand shows)
          <<OP_DUP, OP_INVERT, OP_SWAP, OP_AND>>, <<OP_DUP, OP_INVERT, OP_SWAP, OP_XOR>>, <<OP_DUP, OP_INVERT, OP_SWAP, OP_OR>>, <<OP_1, OP_ADD>>, <<82, OP_MUL>>,
          <<82, OP_DIV>>, <<82, OP_MOD>>, <<OP_1NEGATE, OP_SUB>>, <<OP_DUP, OP_ADD>>, <<OP_1, OP_MAX>>, <<OP_1, OP_MIN>>,
          <<OP_0, OP_BOOLOR>>}
AliasProgs == {PushMin(<<9>>) \o PushMin(x) \o pv \o tr \o tl : x \in AliasItems, pv \in Prov, tr \in Trans,
               tl \in {<<OP_NOP>>, <<OP_FROMALTSTACK>>, <<OP_SWAP, OP_1ADD>>}}
\* second aliasing family: the copied item is *computed* (a result owns its buffer, possibly with spare capacity), one
\* copy is grown, and the tail grows the other copy as well (the two results must not share storage)
AliasSources == {<<82, 83, OP_ADD>>, <<1, 5, 1, 170, OP_CAT>>, <<2, 1, 2, OP_1, OP_LSHIFT>>, <<1, 5, OP_1ADD>>, <<2, 1, 2, 83, OP_NUM2BIN>>}
Grow == {<<1, 7, OP_CAT>>, <<2, 7, 8, OP_CAT>>, <<OP_1 + 5, OP_NUM2BIN>>, <<OP_1ADD>>, <<OP_DUP, OP_CAT>>}
AliasProgs2 == {PushMin(<<9>>) \o src \o pv \o tr \o tl : src \in AliasSources, pv \in Prov, tr \in Grow,
                tl \in {<<OP_NOP>>, <<OP_SWAP, 1, 187, OP_CAT>>, <<OP_SWAP, OP_1 + 6, OP_NUM2BIN>>, <<OP_FROMALTSTACK, 1, 187, OP_CAT>>}}
\* pushes in dead or skipped positions: conditional contexts x push forms (minimal, PUSHDATA1/2 of one byte, a
\* one-byte number that has an OP_N form, OP_1NEGATE as data) x closers; MINIMALDATA must only see executed pushes
DeadCtx == {<<<<OP_0, OP_IF>>, <<OP_ENDIF>>>>, <<<<OP_1, OP_IF, OP_RETURN, OP_ENDIF>>, <<>>>>,
            <<<<OP_0, OP_IF, OP_IF, OP_ELSE>>, <<OP_ENDIF, OP_ENDIF>>>>, <<<<OP_0, OP_IF, OP_1, OP_IF>>, <<OP_ENDIF, OP_ENDIF>>>>,
            <<<<OP_1, OP_NOTIF>>, <<OP_ENDIF>>>>, <<<<OP_1, OP_IF, OP_ELSE>>, <<OP_ENDIF>>>>, <<<<OP_0, OP_IF, OP_ELSE>>, <<OP_ENDIF>>>>,
            <<<<OP_RETURN>>, <<>>>>, <<<<OP_0, OP_IF, OP_RETURN, OP_ELSE>>, <<OP_ENDIF>>>>, <<<<OP_0, OP_NOTIF, OP_IF, OP_RETURN, OP_ENDIF>>, <<OP_ENDIF>>>>,
            <<<<OP_1>>, <<OP_DROP>>>>}
DeadPush == {<<1, 2>>, <<76, 1, 7>>, <<77, 1, 0, 7>>, <<1, 5>>, <<1, 129>>, <<76, 0>>}
DeadProgs == {c[1] \o p \o c[2] \o <<OP_1>> : c \in DeadCtx, p \in DeadPush}

LockVals == {<<>>, <<1>>, <<10>>, <<129>>, <<255, 255, 0>>, <<0, 0, 64>>, <<5, 0, 64>>, <<255, 100, 205, 29>>, <<0, 101, 205, 29>>,
             <<0, 0, 0, 128, 0>>, <<5, 0, 64, 128, 0>>, <<255, 255, 255, 255, 127>>, <<1, 2, 3, 4, 5, 6>>, <<10, 0>>}
LockLts == {<<0, 0, 0, 0>>, <<10, 0, 0, 0>>, <<255, 100, 205, 29>>, <<0, 101, 205, 29>>, <<255, 255, 255, 255>>}
LockSeqs == {<<255, 255, 255, 255>>, <<0, 0, 0, 0>>, <<10, 0, 0, 0>>, <<5, 0, 64, 0>>, <<10, 0, 0, 128>>, <<254, 255, 255, 255>>}
\* lock-script bytes per family (the unlocking script is empty unless stated)
Locks == CASE Family = "unary" -> {PushMin(a) \o <<op>> \o tail : a \in Edge, op \in UnaryOps, tail \in {<<>>, <<OP_ENDIF>>}}
           [] Family = "binary" -> {PushMin(a) \o PushMin(b) \o <<op>> : a \in Edge, b \in Edge, op \in BinaryOps}
           [] Family = "ternary" -> {PushMin(a) \o PushMin(b) \o PushMin(c) \o <<op>> : a \in Small, b \in Small, c \in Small, op \in TernaryOps}
           [] Family = "shift" -> {PushMin(x) \o PushMin(Encode(FromInt(n))) \o <<op>> \o <<OP_SIZE>> :
                                     x \in Blobs, n \in 0..74, op \in {OP_LSHIFT, OP_RSHIFT}}
                                  \cup {PushMin(x) \o PushMin(w) \o <<op>> \o <<OP_SIZE>> : x \in Blobs, w \in Wide, op \in {OP_LSHIFT, OP_RSHIFT}}
           [] Family = "wide" -> {PushMin(a) \o PushMin(b) \o PushMin(w) \o <<op>> : a \in Small, b \in Blobs, w \in Wide \cup {<<255, 255, 255, 255, 127>>, <<255, 255, 255, 127>>}, op \in IndexOps \cup {OP_WITHIN, OP_ADD, OP_MUL, OP_CHECKMULTISIG}}
           [] Family = "flow5" -> {Concat(s) \o <<OP_1>> : s \in SeqsUpTo(FlowAlpha, 5)}
           [] Family = "flow4" -> {Concat(s) \o <<OP_1>> : s \in SeqsUpTo(FlowAlpha, 4)}
           [] Family = "locktime" -> {PushMin(v) \o <<op>> \o tl : v \in LockVals, op \in {OP_CLTV, OP_CSV}, tl \in {<<>>, <<OP_DROP, OP_1>>}}
           [] Family = "alias" -> AliasProgs
           [] Family = "alias2" -> AliasProgs2
           [] Family = "deadpush" -> DeadProgs
           [] Family = "nonmin" -> {<<Len(a)>> \o a \o <<Len(b)>> \o b \o <<op>> : a \in Small \ {<<>>}, b \in Small \ {<<>>},
                                      op \in {OP_ADD, OP_EQUAL, OP_PICK, OP_SPLIT, OP_NUM2BIN, OP_LSHIFT}}
                                   \cup {<<OP_PUSHDATA1, Len(a)>> \o a \o <<op>> : a \in Small, op \in {OP_1ADD, OP_SIZE, OP_IF}}

\* two-script programs: script switching, alt-stack scope, OP_RETURN early success, malformed tails
UAlpha == {<<OP_1>>, <<OP_0>>, <<OP_TOALTSTACK>>, <<OP_RETURN>>, <<1, 2>>, <<OP_IF>>, <<OP_ENDIF>>, <<OP_DUP>>}
LAlpha == {<<OP_FROMALTSTACK>>, <<OP_1>>, <<OP_DEPTH>>, <<OP_RETURN>>, <<OP_VERIF>>, <<OP_IF>>, <<OP_ENDIF>>, <<OP_ELSE>>, <<2, 7>>, <<OP_DROP>>}
TwoLen == IF Family = "two3" THEN 3 ELSE 2
\* unlocking scripts with conditionals and OP_RETURN (what must not leak into the locking script)
ULocks == {<<OP_1>>, <<OP_DEPTH>>, <<OP_0, OP_IF, OP_ELSE, OP_1, OP_ENDIF>>}
UFlows == {a \in SeqsUpTo(FlowAlpha, 4) : (\E i \in DOMAIN a : a[i] = <<OP_RETURN>>) /\ (\E i \in DOMAIN a : a[i] \in {<<OP_IF>>, <<OP_NOTIF>>})}
Progs == IF Family = "uflow4"
         THEN {[u |-> Concat(a), l |-> b] : a \in UFlows, b \in ULocks}
         ELSE IF Family \in {"two2", "two3"}
         THEN {[u |-> Concat(a), l |-> Concat(b)] : a \in SeqsUpTo(UAlpha, TwoLen), b \in SeqsUpTo(LAlpha, TwoLen)}
         ELSE {[u |-> <<>>, l |-> x] : x \in Locks}

Flags(md, mi) == [p2sh |-> FALSE, nulldummy |-> FALSE, discourage |-> FALSE, cltv |-> TRUE, csv |-> TRUE, cleanstack |-> FALSE,
                  dersig |-> FALSE, lows |-> FALSE, minimaldata |-> md, nullfail |-> FALSE, sigpushonly |-> FALSE,
                  forkid |-> FALSE, strictenc |-> FALSE, minimalif |-> mi, bip143 |-> FALSE]
TwoCtxs == {[genesis |-> g, f |-> [Flags(FALSE, FALSE) EXCEPT !.p2sh = pc[1], !.cleanstack = pc[2], !.sigpushonly = so],
              lt |-> <<0, 0, 0, 0>>, seq |-> <<255, 255, 255, 255>>, ver |-> <<1, 0, 0, 0>>, sigmode |-> "none", sx |-> <<>>] :
              g \in BOOLEAN, pc \in {<<FALSE, FALSE>>, <<TRUE, FALSE>>, <<TRUE, TRUE>>}, so \in BOOLEAN}
LockCtxs == {[genesis |-> g, f |-> [Flags(md, FALSE) EXCEPT !.discourage = dc, !.cltv = on, !.csv = on], lt |-> lt, seq |-> sq, ver |-> vr,
               sigmode |-> "none", sx |-> <<>>] :
               g \in BOOLEAN, md \in BOOLEAN, dc \in BOOLEAN, on \in BOOLEAN, lt \in LockLts, sq \in LockSeqs, vr \in {<<1, 0, 0, 0>>, <<2, 0, 0, 0>>}}
UCtxs == {c \in TwoCtxs : ~c.f.p2sh /\ ~c.f.sigpushonly /\ ~c.f.cleanstack}
Ctxs == IF Family = "locktime" THEN LockCtxs ELSE IF Family = "uflow4" THEN UCtxs ELSE IF Family \in {"two2", "two3"} THEN TwoCtxs ELSE
        {[genesis |-> g, f |-> Flags(md, mi), lt |-> <<0, 0, 0, 0>>, seq |-> <<255, 255, 255, 255>>, ver |-> <<1, 0, 0, 0>>, sigmode |-> "none", sx |-> <<>>] :
           g \in BOOLEAN, md \in BOOLEAN, mi \in IF Family \in {"flow5", "flow4", "unary", "nonmin", "deadpush"} THEN BOOLEAN ELSE {FALSE}}

VARIABLES prog, cx, vm, started
vars == <<prog, cx, vm, started>>

Init == /\ prog \in Progs /\ cx \in Ctxs /\ vm = Begin(prog.u, prog.l, cx) /\ started = FALSE
Next == /\ vm.st = "run" /\ ~NeedsOracle(vm)
        /\ vm' = Step(vm, cx, NoOracle)
        /\ started' = TRUE
        /\ UNCHANGED <<prog, cx>>
Spec == Init /\ [][Next]_vars

\* ---- properties ---------------------------------------------------------------------------------------
Total == /\ vm.st \in {"run", "fin", "err", "unmodelled", "toobig"}
         /\ vm.st \in {"fin", "err"} => Verdict(vm, cx) \in {"ok", "err"}
         /\ vm.st = "run" => (vm.pc >= 1 /\ vm.pc <= Len(vm.scripts[vm.sidx].toks))
Terminates == [][Remaining(vm') < Remaining(vm)]_vars
StackBound == (~cx.genesis /\ vm.st = "run") => Len(vm.ds) + Len(vm.as) <= 1000
CondShape == Len(vm.vfe) = Len(vm.vfl)
ElementBound == (~cx.genesis /\ vm.st \in {"run", "fin"}) => \A i \in 1..Len(vm.ds) : Len(vm.ds[i]) <= 520
NumericResultsMinimal == TRUE

\* one case per program, emitted at its terminal state together with the specification's outcome
EmitCase == (vm.st # "run" \/ NeedsOracle(vm)) =>
               PrintT(ToJson([k |-> "case", unlock |-> prog.u, lock |-> prog.l, genesis |-> cx.genesis, md |-> cx.f.minimaldata, mi |-> cx.f.minimalif,
                              discourage |-> cx.f.discourage, cltv |-> cx.f.cltv, csv |-> cx.f.csv, lt |-> cx.lt, seq |-> cx.seq, ver |-> cx.ver,
                              p2sh |-> cx.f.p2sh, cleanstack |-> cx.f.cleanstack, sigpushonly |-> cx.f.sigpushonly,
                              st |-> vm.st, verdict |-> Verdict(vm, cx)]))
=================================================================================
