---- MODULE MC_FeeMath_TTrace_1790219367 ----
EXTENDS Sequences, TLCExt, MC_FeeMath, Toolbox, Naturals, TLC

_expression ==
    LET MC_FeeMath_TEExpression == INSTANCE MC_FeeMath_TEExpression
    IN MC_FeeMath_TEExpression!expression
----

_trace ==
    LET MC_FeeMath_TETrace == INSTANCE MC_FeeMath_TETrace
    IN MC_FeeMath_TETrace!trace
----

_inv ==
    ~(
        TLCGet("level") = Len(_TETrace)
        /\
        phase = ("done")
        /\
        res = ([ok |-> TRUE, post |-> [outs |-> <<>>, ins |-> <<[sats |-> 170, ulen |-> 0, kind |-> "p2pkh"]>>]])
        /\
        q = ([ss |-> 1, sb |-> 1, ds |-> 1, db |-> 2])
        /\
        pre = ([outs |-> <<>>, ins |-> <<[sats |-> 170, ulen |-> 0, kind |-> "p2pkh"]>>])
        /\
        dest = ([slen |-> 1, data |-> FALSE, kind |-> "new", idx |-> 0])
    )
----

_init ==
    /\ res = _TETrace[1].res
    /\ pre = _TETrace[1].pre
    /\ q = _TETrace[1].q
    /\ dest = _TETrace[1].dest
    /\ phase = _TETrace[1].phase
----

_next ==
    /\ \E i,j \in DOMAIN _TETrace:
        /\ \/ /\ j = i + 1
              /\ i = TLCGet("level")
        /\ res  = _TETrace[i].res
        /\ res' = _TETrace[j].res
        /\ pre  = _TETrace[i].pre
        /\ pre' = _TETrace[j].pre
        /\ q  = _TETrace[i].q
        /\ q' = _TETrace[j].q
        /\ dest  = _TETrace[i].dest
        /\ dest' = _TETrace[j].dest
        /\ phase  = _TETrace[i].phase
        /\ phase' = _TETrace[j].phase

\* Uncomment the ASSUME below to write the states of the error trace
\* to the given file in Json format. Note that you can pass any tuple
\* to `JsonSerialize`. For example, a sub-sequence of _TETrace.
    \* ASSUME
    \*     LET J == INSTANCE Json
    \*         IN J!JsonSerialize("MC_FeeMath_TTrace_1790219367.json", _TETrace)

=============================================================================

 Note that you can extract this module `MC_FeeMath_TEExpression`
  to a dedicated file to reuse `expression` (the module in the 
  dedicated `MC_FeeMath_TEExpression.tla` file takes precedence 
  over the module `MC_FeeMath_TEExpression` below).

---- MODULE MC_FeeMath_TEExpression ----
EXTENDS Sequences, TLCExt, MC_FeeMath, Toolbox, Naturals, TLC

expression == 
    [
        \* To hide variables of the `MC_FeeMath` spec from the error trace,
        \* remove the variables below.  The trace will be written in the order
        \* of the fields of this record.
        res |-> res
        ,pre |-> pre
        ,q |-> q
        ,dest |-> dest
        ,phase |-> phase
        
        \* Put additional constant-, state-, and action-level expressions here:
        \* ,_stateNumber |-> _TEPosition
        \* ,_resUnchanged |-> res = res'
        
        \* Format the `res` variable as Json value.
        \* ,_resJson |->
        \*     LET J == INSTANCE Json
        \*     IN J!ToJson(res)
        
        \* Lastly, you may build expressions over arbitrary sets of states by
        \* leveraging the _TETrace operator.  For example, this is how to
        \* count the number of times a spec variable changed up to the current
        \* state in the trace.
        \* ,_resModCount |->
        \*     LET F[s \in DOMAIN _TETrace] ==
        \*         IF s = 1 THEN 0
        \*         ELSE IF _TETrace[s].res # _TETrace[s-1].res
        \*             THEN 1 + F[s-1] ELSE F[s-1]
        \*     IN F[_TEPosition - 1]
    ]

=============================================================================



Parsing and semantic processing can take forever if the trace below is long.
 In this case, it is advised to uncomment the module below to deserialize the
 trace from a generated binary file.

\*
\*---- MODULE MC_FeeMath_TETrace ----
\*EXTENDS IOUtils, MC_FeeMath, TLC
\*
\*trace == IODeserialize("MC_FeeMath_TTrace_1790219367.bin", TRUE)
\*
\*=============================================================================
\*

---- MODULE MC_FeeMath_TETrace ----
EXTENDS MC_FeeMath, TLC

trace == 
    <<
    ([phase |-> "new",res |-> [ok |-> FALSE, post |-> [outs |-> <<>>, ins |-> <<[sats |-> 170, ulen |-> 0, kind |-> "p2pkh"]>>]],q |-> [ss |-> 1, sb |-> 1, ds |-> 1, db |-> 2],pre |-> [outs |-> <<>>, ins |-> <<[sats |-> 170, ulen |-> 0, kind |-> "p2pkh"]>>],dest |-> [slen |-> 1, data |-> FALSE, kind |-> "new", idx |-> 0]]),
    ([phase |-> "done",res |-> [ok |-> TRUE, post |-> [outs |-> <<>>, ins |-> <<[sats |-> 170, ulen |-> 0, kind |-> "p2pkh"]>>]],q |-> [ss |-> 1, sb |-> 1, ds |-> 1, db |-> 2],pre |-> [outs |-> <<>>, ins |-> <<[sats |-> 170, ulen |-> 0, kind |-> "p2pkh"]>>],dest |-> [slen |-> 1, data |-> FALSE, kind |-> "new", idx |-> 0]])
    >>
----


=============================================================================

---- CONFIG MC_FeeMath_TTrace_1790219367 ----

INVARIANT
    _inv

CHECK_DEADLOCK
    \* CHECK_DEADLOCK off because of PROPERTY or INVARIANT above.
    FALSE

INIT
    _init

NEXT
    _next

CONSTANT
    _TETrace <- _trace

ALIAS
    _expression
=============================================================================
\* Generated on Thu Sep 24 03:10:39 UTC 2026