---------------------------------- MODULE TxWire ---------------------------------
(* Bitcoin (SV) transaction wire format: standard and extended (BIP-239 style marker       *)
(* 00 00 00 00 00 EF after the version; every input followed by the spent output's value   *)
(* and script).  Ser is the one serialiser, Parse the one parser (single / stream / list   *)
(* entry points are thin wrappers).                                                        *)
(*                                                                                          *)
(* tx    == [ver : 4 bytes, ins : Seq(in), outs : Seq(out), lt : 4 bytes]                   *)
(* in    == [txid : 32 bytes (wire order), vout : 4 bytes, us : bytes, seq : 4 bytes,       *)
(*           sats : 8 bytes, ps : bytes]      (sats, ps: spent output; extended format)     *)
(* out   == [sats : 8 bytes, ls : bytes]                                                    *)
EXTENDS Bytes

Marker == <<0, 0, 0, 0, 0, 239>>

SerIn(i, ext) == i.txid \o i.vout \o VarBytes(i.us) \o i.seq \o
                 (IF ext THEN i.sats \o VarBytes(i.ps) ELSE <<>>)
SerOut(o) == o.sats \o VarBytes(o.ls)

Ser(tx, ext) == tx.ver \o (IF ext THEN Marker ELSE <<>>) \o
                VarIntEnc(Len(tx.ins)) \o Concat([k \in 1..Len(tx.ins) |-> SerIn(tx.ins[k], ext)]) \o
                VarIntEnc(Len(tx.outs)) \o Concat([k \in 1..Len(tx.outs) |-> SerOut(tx.outs[k])]) \o
                tx.lt

\* the one shape the marker makes ambiguous in standard form
Ambiguous(tx) == tx.ins = <<>> /\ tx.outs = <<>> /\ tx.lt = <<0, 0, 0, 239>>

\* what a standard-format parse can preserve of a transaction
StdView(tx) == [tx EXCEPT !.ins = [k \in 1..Len(tx.ins) |-> [tx.ins[k] EXCEPT !.sats = Zeros(8), !.ps = <<>>]]]

\* ---- parser -----------------------------------------------------------------------------
Fail(why, at) == [ok |-> FALSE, why |-> why, at |-> at]

\* one input at pos: [ok, in, next, minimal]
ParseIn(b, pos, ext) ==
    IF pos + 35 > Len(b) THEN Fail("in.outpoint", pos)
    ELSE LET v == VarIntAt(b, pos + 36) IN
      IF ~v.ok THEN Fail("in.scriptlen", pos + 36)
      ELSE LET p2 == pos + 36 + v.w IN
        IF v.val > Len(b) \/ p2 + v.val + 3 > Len(b) THEN Fail("in.script", p2)
        ELSE LET base == [txid |-> Slice(b, pos, 32), vout |-> Slice(b, pos + 32, 4),
                          us |-> Slice(b, p2, v.val), seq |-> Slice(b, p2 + v.val, 4),
                          sats |-> Zeros(8), ps |-> <<>>]
                 p3 == p2 + v.val + 4
             IN IF ~ext THEN [ok |-> TRUE, in |-> base, next |-> p3, minimal |-> v.minimal]
                ELSE IF p3 + 7 > Len(b) THEN Fail("in.prevsats", p3)
                ELSE LET v2 == VarIntAt(b, p3 + 8) IN
                  IF ~v2.ok THEN Fail("in.prevscriptlen", p3 + 8)
                  ELSE LET p4 == p3 + 8 + v2.w IN
                    IF v2.val > Len(b) \/ p4 + v2.val - 1 > Len(b) THEN Fail("in.prevscript", p4)
                    ELSE [ok |-> TRUE,
                          in |-> [base EXCEPT !.sats = Slice(b, p3, 8), !.ps = Slice(b, p4, v2.val)],
                          next |-> p4 + v2.val, minimal |-> v.minimal /\ v2.minimal]

ParseOut(b, pos) ==
    IF pos + 7 > Len(b) THEN Fail("out.sats", pos)
    ELSE LET v == VarIntAt(b, pos + 8) IN
      IF ~v.ok THEN Fail("out.scriptlen", pos + 8)
      ELSE LET p2 == pos + 8 + v.w IN
        IF v.val > Len(b) \/ p2 + v.val - 1 > Len(b) THEN Fail("out.script", p2)
        ELSE [ok |-> TRUE, out |-> [sats |-> Slice(b, pos, 8), ls |-> Slice(b, p2, v.val)],
              next |-> p2 + v.val, minimal |-> v.minimal]

\* n items from pos with the item parser P(b, pos); the count is capped by what could fit
\* (an input needs >= 41 bytes, an output >= 9), beyond which the parse fails anyway.
ParseMany(b, pos, n, minsz, P(_, _), fld) ==
    IF n > (Len(b) - pos + 1) \div minsz THEN Fail("count", pos)
    ELSE FoldLeft(LAMBDA acc, k :
                    IF ~acc.ok THEN acc
                    ELSE LET r == P(b, acc.next) IN
                         IF ~r.ok THEN r
                         ELSE [ok |-> TRUE, items |-> Append(acc.items, r[fld]), next |-> r.next,
                               minimal |-> acc.minimal /\ r.minimal],
                  [ok |-> TRUE, items |-> <<>>, next |-> pos, minimal |-> TRUE], Idx(n))

\* Parse one transaction starting at 1-based pos.
\* Result: [ok, tx, ext, next (first position after the transaction), minimal]
ParseAt(b, pos) ==
    IF pos + 3 > Len(b) THEN Fail("version", pos)
    ELSE
    LET ver == Slice(b, pos, 4)
        ic == VarIntAt(b, pos + 4)
    IN IF ~ic.ok THEN Fail("incount", pos + 4)
    ELSE
    \* marker: a zero input count, a zero output count, then the four bytes 00 00 00 EF
    \* (the counts are read as varints, so non-minimal zeros are recognised as well)
    LET oc0 == IF ic.val = 0 THEN VarIntAt(b, pos + 4 + ic.w) ELSE ic
        plt == pos + 4 + ic.w + oc0.w
        ext == /\ ic.val = 0 /\ oc0.ok /\ oc0.val = 0
               /\ plt + 3 <= Len(b) /\ Slice(b, plt, 4) = <<0, 0, 0, 239>>
        \* position and value of the effective input count
        ic2 == IF ext THEN VarIntAt(b, plt + 4) ELSE ic
        pin == IF ext THEN plt + 4 + ic2.w ELSE pos + 4 + ic.w
    IN IF ~ic2.ok THEN Fail("incount2", plt + 4)
    ELSE
    LET ins == ParseMany(b, pin, ic2.val, 41, LAMBDA bb, p : ParseIn(bb, p, ext), "in")
    IN IF ~ins.ok THEN ins
    ELSE
    LET oc == VarIntAt(b, ins.next) IN
    IF ~oc.ok THEN Fail("outcount", ins.next)
    ELSE
    LET outs == ParseMany(b, ins.next + oc.w, oc.val, 9, ParseOut, "out") IN
    IF ~outs.ok THEN outs
    ELSE IF outs.next + 3 > Len(b) THEN Fail("locktime", outs.next)
    ELSE [ok |-> TRUE,
          tx |-> [ver |-> ver, ins |-> ins.items, outs |-> outs.items, lt |-> Slice(b, outs.next, 4)],
          ext |-> ext, next |-> outs.next + 4,
          minimal |-> ic.minimal /\ (ext => oc0.minimal) /\ ic2.minimal /\ ins.minimal /\ oc.minimal /\ outs.minimal]

\* stream entry point: used = bytes consumed
ParseStream(b) == LET r == ParseAt(b, 1) IN
                  IF r.ok THEN [ok |-> TRUE, tx |-> r.tx, ext |-> r.ext, used |-> r.next - 1, minimal |-> r.minimal]
                  ELSE r
\* single-transaction entry point: the whole input must be one transaction
ParseExact(b) == LET r == ParseStream(b) IN
                 IF r.ok /\ r.used # Len(b) THEN Fail("trailing", r.used + 1) ELSE r

\* counted list (block body): varint count, then that many transactions
ParseList(b) ==
    LET c == VarIntAt(b, 1) IN
    IF ~c.ok THEN Fail("listcount", 1)
    ELSE IF c.val > Len(b) \div 10 THEN Fail("count", 1)
    ELSE LET r == FoldLeft(LAMBDA acc, k :
                              IF ~acc.ok THEN acc
                              ELSE LET t == ParseAt(b, acc.next) IN
                                   IF ~t.ok THEN t
                                   ELSE [ok |-> TRUE, txs |-> Append(acc.txs, [tx |-> t.tx, ext |-> t.ext]),
                                         next |-> t.next, minimal |-> acc.minimal /\ t.minimal],
                           [ok |-> TRUE, txs |-> <<>>, next |-> 1 + c.w, minimal |-> c.minimal], Idx(c.val))
         IN IF r.ok THEN [ok |-> TRUE, txs |-> r.txs, used |-> r.next - 1, minimal |-> r.minimal] ELSE r
=================================================================================
