------------------------------- MODULE Trace_Address -------------------------------
(* Trace validation for C15.                                                                 *)
(*  derive : a key / key hash turned into an address and into P2PKH scripts by every          *)
(*           constructor, then read back                                                       *)
(*  accept : one string offered to every entry point that takes an address                     *)
(* Checksum and HASH160 values are oracle obligations (neg = TRUE: must NOT hold).            *)
EXTENDS TraceLib, Address

VARIABLE l
Ev == Trace[l]
Oblige(kind, in, out, neg) == Emit([k |-> "hash", kind |-> kind, in |-> in, out |-> out, ref |-> l, neg |-> neg])

DeriveOK(e) ==
    LET a == e.addr IN
    /\ Structural(a)
    /\ HashOf(a) = e.h
    /\ Payload(a)[1] = (IF e.mainnet THEN VersionMain ELSE VersionTest)
    /\ Encode58(Payload(a)) = a
    /\ Oblige("sha256d4", CheckedPart(a), ChecksumOf(a), FALSE)
    /\ (e.key # <<>>) => (Oblige("hash160", e.key, e.h, FALSE) /\ e.fromKey = P2PKHScript(e.h))
    /\ e.fromHash = P2PKHScript(e.h)
    /\ e.fromAddr.ok /\ e.fromAddr.s = P2PKHScript(e.h)
    /\ e.pkh.ok /\ e.pkh.h = e.h
    /\ e.mainnet => e.addrs = <<a>>
    /\ e.validate
    /\ e.fromString.ok /\ e.fromString.pkh = e.h

AllOf(e) == <<e.validate, e.fromString.ok, e.fromAddr.ok, e.payTo, e.changeTo>>
AcceptOK(e) ==
    LET v == AllOf(e) IN
    IF ~Structural(e.s) THEN \A i \in 1..5 : ~v[i]
    ELSE /\ \A i \in 1..5 : v[i] = v[1]                         \* every entry point agrees
         /\ Oblige("sha256d4", CheckedPart(e.s), ChecksumOf(e.s), ~v[1])
         /\ v[1] => (e.fromString.pkh = HashOf(e.s) /\ e.fromAddr.s = P2PKHScript(HashOf(e.s)))

Init == l = 1
Next == /\ l <= Len(Trace)
        /\ l' = l + 1
        /\ Mark(l)
        /\ CASE Ev.ev = "derive" -> (~DeriveOK(Ev)) => Reject(l, [ev |-> "derive", structural |-> Structural(Ev.addr)])
             [] Ev.ev = "accept" -> (~AcceptOK(Ev)) => Reject(l, [ev |-> "accept", structural |-> Structural(Ev.s),
                                                                    declen |-> Len(Decode58(Ev.s).b), chars |-> ValidChars(Ev.s)])
             [] OTHER -> Reject(l, [ev |-> Ev.ev])
Spec == Init /\ [][Next]_l
=================================================================================
