SPECIFICATION Spec
CONSTANTS
  MaxIn = 3
  MaxOut = 3
INVARIANTS ErrorsExactly ForkLen ForkAcpZero ForkSeqZero ForkOutsRule ForkTypeLast LegacySingleBug LegacyParses EmitCase
CHECK_DEADLOCK FALSE
