SPECIFICATION Spec
CONSTANTS
  Family = "unary"
INVARIANTS Total StackBound CondShape ElementBound EmitCase
PROPERTIES Terminates
CHECK_DEADLOCK FALSE
