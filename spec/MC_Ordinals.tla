--------------------------------- MODULE MC_Ordinals ---------------------------------
(* The listing and bid flows on every combination of price, funding UTXO values and quote of the      *)
(* model: whenever a flow completes, the seller is protected and the ordinal is routed to the  *)
(* buyer (design check), and the scenario is emitted for the real ord package.  FeePaid is     *)
(* reported, not asserted: whether an under-funded acceptance must fail is decided on the      *)
(* real code by the trace specification.                                                       *)
EXTENDS Ordinals, Json

Prices == {1, 2, 1000}
Vals(p) == {1, p - 1, p, p + 1, p + 30, p + 5000} \ {0, -1}
Quotes == {[ss |-> 5, sb |-> 100, ds |-> 5, db |-> 100], [ss |-> 1, sb |-> 1, ds |-> 1, db |-> 1]}
SellerLens == {25, 35, 135}
VARIABLES flow, price, us, q, sl, res
vars == <<flow, price, us, q, sl, res>>
Flow(f, p, u, qq, s) == CASE f = "list" -> Listing(p, u, qq, s) [] f = "list2d" -> Listing2D(p, u, qq, s)
                          [] f = "bid" -> Bid(p, u, qq, s) [] f = "bid2d" -> Bid2D(p, u, qq, s)
Init == /\ flow \in {"list", "list2d", "bid", "bid2d"} /\ price \in Prices /\ q \in Quotes /\ sl \in SellerLens
        /\ \E n \in 2..3 : us \in [1..n -> Vals(price)]
        /\ res = [ok |-> FALSE, why |-> "none"]
Run == /\ res = [ok |-> FALSE, why |-> "none"]
       /\ res' = Flow(flow, price, us, q, sl)
       /\ UNCHANGED <<flow, price, us, q, sl>>
Next == Run
Spec == Init /\ [][Next]_vars

Completed == res.ok
DesignSellerProtected == Completed => SellerProtected(res.tx, price, sl)
DesignOrdinalRouted == Completed => (ExactlyOneOrdinal(res.tx) /\ OrdinalRouted(res.tx))
DesignNoValueCreated == Completed => SumOut(res.tx) <= SumIn(res.tx)
EmitCase == (res # [ok |-> FALSE, why |-> "none"]) =>
              PrintT(ToJson([k |-> "case", flow |-> flow, price |-> price, us |-> us, q |-> q, sx |-> sl - 25, specok |-> res.ok,
                             feepaid |-> IF res.ok THEN FeePaid(Signed(res.tx), q) ELSE FALSE]))
=================================================================================
