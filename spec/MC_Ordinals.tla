--------------------------------- MODULE MC_Ordinals ---------------------------------
(* The listing flows on every combination of price, funding UTXO values and quote of the      *)
(* model: whenever a flow completes, the seller is protected and the ordinal is routed to the  *)
(* buyer (design check), and the scenario is emitted for the real ord package.  FeePaid is     *)
(* reported, not asserted: whether an under-funded acceptance must fail is decided on the      *)
(* real code by the trace specification.                                                       *)
EXTENDS Ordinals, Json

Prices == {1, 2, 1000}
Vals(p) == {1, p - 1, p, p + 1, p + 30, p + 5000} \ {0, -1}
Quotes == {[ss |-> 5, sb |-> 100, ds |-> 5, db |-> 100], [ss |-> 1, sb |-> 1, ds |-> 1, db |-> 1]}
VARIABLES flow, price, us, q, res
vars == <<flow, price, us, q, res>>
Init == /\ flow \in {"list", "list2d"} /\ price \in Prices /\ q \in Quotes
        /\ \E n \in 2..3 : us \in [1..n -> Vals(price)]
        /\ res = [ok |-> FALSE, why |-> "none"]
Run == /\ res = [ok |-> FALSE, why |-> "none"]
       /\ res' = IF flow = "list" THEN Listing(price, us, q, 25) ELSE Listing2D(price, us, q, 25)
       /\ UNCHANGED <<flow, price, us, q>>
Next == Run
Spec == Init /\ [][Next]_vars

Completed == res.ok
DesignSellerProtected == Completed => SellerProtected(res.tx, price, 25)
DesignOrdinalRouted == Completed => (ExactlyOneOrdinal(res.tx) /\ OrdinalRouted(res.tx))
DesignNoValueCreated == Completed => SumOut(res.tx) <= SumIn(res.tx)
EmitCase == (res # [ok |-> FALSE, why |-> "none"]) =>
              PrintT(ToJson([k |-> "case", flow |-> flow, price |-> price, us |-> us, q |-> q, specok |-> res.ok,
                             feepaid |-> IF res.ok THEN FeePaid(Signed(res.tx), q) ELSE FALSE]))
=================================================================================
