---------------------------------- MODULE BigNum ---------------------------------
(* Script numbers: sign-magnitude, little-endian byte strings of any length.               *)
(* A number is [neg : BOOLEAN, mag : base-256 digits, least significant first, no leading  *)
(* (most significant) zero digits]; zero is [neg |-> FALSE, mag |-> <<>>].                  *)
(* TLC integers are 32 bit, so nothing here is ever converted to a TLC integer unless it   *)
(* is known to fit (ToInt clamps at +-Huge).  Style: folds, no accumulator recursion.       *)
EXTENDS Bytes

Dig(m, i) == IF i <= Len(m) THEN m[i] ELSE 0
SigLen(m) == LET nz == {i \in 1..Len(m) : m[i] # 0} IN
             IF nz = {} THEN 0 ELSE CHOOSE i \in nz : \A j \in nz : j <= i
Trim(m) == SubSeq(m, 1, SigLen(m))

Zero == [neg |-> FALSE, mag |-> <<>>]
IsZeroN(x) == x.mag = <<>>
Norm(neg, mag) == LET m == Trim(mag) IN [neg |-> neg /\ m # <<>>, mag |-> m]

\* ---- magnitudes ------------------------------------------------------------------------------
AddM(a, b) == LET n == Mx(Len(a), Len(b)) + 1
                  r == FoldLeft(LAMBDA acc, i : LET s == Dig(a, i) + Dig(b, i) + acc.c IN
                                   [out |-> Append(acc.out, s % 256), c |-> s \div 256],
                                [out |-> <<>>, c |-> 0], Idx(n))
              IN Trim(r.out)
CmpM(a, b) == IF Len(a) > Len(b) THEN 1 ELSE IF Len(a) < Len(b) THEN -1
              ELSE LET df == {i \in 1..Len(a) : a[i] # b[i]} IN
                   IF df = {} THEN 0
                   ELSE LET t == CHOOSE i \in df : \A j \in df : j <= i IN IF a[t] > b[t] THEN 1 ELSE -1
\* a - b for a >= b
SubM(a, b) == LET r == FoldLeft(LAMBDA acc, i : LET d == Dig(a, i) - Dig(b, i) - acc.c IN
                                   IF d < 0 THEN [out |-> Append(acc.out, d + 256), c |-> 1]
                                   ELSE [out |-> Append(acc.out, d), c |-> 0],
                                [out |-> <<>>, c |-> 0], Idx(Len(a)))
              IN Trim(r.out)
MulD(a, d) == LET r == FoldLeft(LAMBDA acc, i : LET p == a[i] * d + acc.c IN
                                   [out |-> Append(acc.out, p % 256), c |-> p \div 256],
                                [out |-> <<>>, c |-> 0], Idx(Len(a)))
              IN Trim(Append(r.out, r.c))
MulM(a, b) == FoldLeft(LAMBDA acc, j : IF b[j] = 0 THEN acc ELSE AddM(acc, Zeros(j - 1) \o MulD(a, b[j])),
                       <<>>, Idx(Len(b)))
BitM(a, k) == (a[(k \div 8) + 1] \div (2 ^ (k % 8))) % 2           \* k = 0-based bit index
DblM(r, bit) == LET x == FoldLeft(LAMBDA acc, i : LET s == 2 * r[i] + acc.c IN
                                     [out |-> Append(acc.out, s % 256), c |-> s \div 256],
                                  [out |-> <<>>, c |-> bit], Idx(Len(r)))
                IN Trim(Append(x.out, x.c))
\* bitwise long division: <<quotient, remainder>>, b # 0
DivModM(a, b) ==
    IF a = <<>> THEN <<(<<>>), (<<>>)>>
    ELSE LET nb == 8 * Len(a)
             res == FoldLeft(LAMBDA acc, t : LET k == nb - t
                                                 r1 == DblM(acc.r, BitM(a, k))
                                             IN IF CmpM(r1, b) >= 0 THEN [r |-> SubM(r1, b), qb |-> Append(acc.qb, 1)]
                                                ELSE [r |-> r1, qb |-> Append(acc.qb, 0)],
                             [r |-> <<>>, qb |-> <<>>], Idx(nb))
             q == [i \in 1..Len(a) |-> LET base == 8 * (i - 1) IN
                     res.qb[nb - base] + res.qb[nb - base - 1] * 2 + res.qb[nb - base - 2] * 4 + res.qb[nb - base - 3] * 8 +
                     res.qb[nb - base - 4] * 16 + res.qb[nb - base - 5] * 32 + res.qb[nb - base - 6] * 64 + res.qb[nb - base - 7] * 128]
         IN <<Trim(q), res.r>>

\* ---- script-number encoding ----------------------------------------------------------------------
Decode(bs) == IF bs = <<>> THEN Zero
              ELSE LET top == bs[Len(bs)]
                       m == Trim(SubSeq(bs, 1, Len(bs) - 1) \o <<top % 128>>)
                   IN [neg |-> (top >= 128) /\ m # <<>>, mag |-> m]
Encode(n) == IF n.mag = <<>> THEN <<>>
             ELSE IF n.mag[Len(n.mag)] >= 128 THEN n.mag \o <<IF n.neg THEN 128 ELSE 0>>
             ELSE IF n.neg THEN SubSeq(n.mag, 1, Len(n.mag) - 1) \o <<n.mag[Len(n.mag)] + 128>>
             ELSE n.mag
\* the shortest encoding of the same value (negative zero becomes empty)
MinEncode(bs) == Encode(Decode(bs))
IsMinimal(bs) == bs = <<>> \/ (bs[Len(bs)] % 128 # 0) \/ (Len(bs) > 1 /\ bs[Len(bs) - 1] >= 128)

\* ---- signed arithmetic ---------------------------------------------------------------------------
NegN(x) == Norm(~x.neg, x.mag)
AbsN(x) == [neg |-> FALSE, mag |-> x.mag]
AddN(x, y) == IF x.neg = y.neg THEN Norm(x.neg, AddM(x.mag, y.mag))
              ELSE LET c == CmpM(x.mag, y.mag) IN
                   IF c = 0 THEN Zero
                   ELSE IF c > 0 THEN Norm(x.neg, SubM(x.mag, y.mag))
                   ELSE Norm(y.neg, SubM(y.mag, x.mag))
SubN(x, y) == AddN(x, NegN(y))
MulN(x, y) == Norm(x.neg # y.neg, MulM(x.mag, y.mag))
\* truncation toward zero; remainder has the sign of the dividend
DivN(x, y) == Norm(x.neg # y.neg, DivModM(x.mag, y.mag)[1])
ModN(x, y) == Norm(x.neg, DivModM(x.mag, y.mag)[2])
CmpN(x, y) == IF x.neg /\ ~y.neg THEN -1 ELSE IF ~x.neg /\ y.neg THEN 1
              ELSE IF x.neg THEN CmpM(y.mag, x.mag) ELSE CmpM(x.mag, y.mag)
FromInt(i) == IF i = 0 THEN Zero
              ELSE LET a == IF i < 0 THEN -i ELSE i IN
                   Norm(i < 0, <<a % 256, (a \div 256) % 256, (a \div 65536) % 256, (a \div 16777216) % 256>>)
One == FromInt(1)
\* clamped conversion: exact when |x| < 2^24, otherwise +-Huge
ToInt(x) == IF Len(x.mag) > 3 THEN (IF x.neg THEN -Huge ELSE Huge)
            ELSE LET v == Dig(x.mag, 1) + 256 * Dig(x.mag, 2) + 65536 * Dig(x.mag, 3) IN IF x.neg THEN -v ELSE v
\* magnitude of a little-endian unsigned field (e.g. a 4-byte lock time)
FromLE(bs) == [neg |-> FALSE, mag |-> Trim(bs)]
=================================================================================
