SPECIFICATION Spec
INVARIANTS Refines FailsOnlyWhenShort NeverCreatesValue SizeIdentity EstimateUpper EmitCase
CHECK_DEADLOCK FALSE
