SPECIFICATION Spec
CONSTANTS
  MaxReplies = 3
INVARIANTS OutputsUntouched PriorInputsKept AppendedAreFinal SuccessCovers InsufficientMeansDeficit EmitCase
PROPERTIES OnlyWhileDeficit NoCallAfterCovered
CHECK_DEADLOCK FALSE
