SPECIFICATION Spec
CONSTANTS
  Miners = {"m1", "m2", ""}
  NObjs = 1
  Depth = 3
INVARIANTS TypeOK RefSharing EmitSeq
PROPERTIES ReadsSeeLastWrite
CHECK_DEADLOCK FALSE
