SPECIFICATION Spec
INVARIANTS CommitTheorem
CHECK_DEADLOCK FALSE
