SPECIFICATION Spec
CONSTANTS
  Family = "ternary"
INVARIANTS Total StackBound CondShape ElementBound EmitCase
PROPERTIES Terminates
CHECK_DEADLOCK FALSE
