SPECIFICATION Spec
CONSTANTS
  Family = "flow4"
INVARIANTS Total StackBound CondShape ElementBound EmitCase
PROPERTIES Terminates
CHECK_DEADLOCK FALSE
