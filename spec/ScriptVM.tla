---------------------------------- MODULE ScriptVM ---------------------------------
(* The Bitcoin SV script interpreter as a deterministic state machine, written from the    *)
(* node's EvalScript / VerifyScript rules (DESIGN.md Appendix A), not from go-bt.          *)
(*                                                                                          *)
(* Static context  cx == [genesis : BOOLEAN,                                                *)
(*                        f : [p2sh, nulldummy, discourage, cltv, csv, cleanstack, dersig,  *)
(*                             lows, minimaldata, nullfail, sigpushonly, forkid, strictenc, *)
(*                             minimalif : BOOLEAN],                                        *)
(*                        lt, seq, ver : 4 little-endian bytes of the spending tx / input]  *)
(* Machine state   vm == [sidx : 1..3 (unlocking, locking, P2SH redeem script), pc : token  *)
(*                        index, ds, as : stacks of byte strings, vfe, vfl : conditional    *)
(*                        stacks (vfExec, vfElse), early : BOOLEAN, nops, csep, saved,      *)
(*                        scripts : <<[toks, len]>>, p2sh : BOOLEAN,                        *)
(*                        st : "run" | "fin" | "err" | "unmodelled" | "toobig"]             *)
(* One Step = one token of the current script, the per-token limit checks and, at the end   *)
(* of a script, the switch to the next one (alt stack reset, P2SH re-entry).  "fin" means   *)
(* all scripts ran; Verdict applies the final truth / clean-stack test.                      *)
(* Hash values and signature checks are not computed here: Step takes an oracle record      *)
(* orc == [top : bytes] (the observed result item) used only by those opcodes.              *)
EXTENDS ScriptTok, BigNum, Bitwise, SigCheck

MaxElem(cx) == IF cx.genesis THEN Huge ELSE 520
MaxOps(cx) == IF cx.genesis THEN Huge ELSE 500
MaxStack(cx) == IF cx.genesis THEN Huge ELSE 1000
MaxScript(cx) == IF cx.genesis THEN Huge ELSE 10000
MaxNumLen(cx) == IF cx.genesis THEN 750000 ELSE 4
ModelLimit == 100000          \* items larger than this are outside the model ("unmodelled")

Truthy(b) == \E i \in 1..Len(b) : b[i] # 0 /\ ~(i = Len(b) /\ b[i] = 128)
BoolItem(v) == IF v THEN <<1>> ELSE <<>>

Top(s, k) == s[Len(s) + 1 - k]
Pop(s, n) == SubSeq(s, 1, Len(s) - n)
Push(s, x) == Append(s, x)

\* results of executing one opcode
E == [k |-> "err"]
U == [k |-> "unmodelled"]
TooBig == [k |-> "toobig"]                 \* an item above ModelLimit would have to be built
S(vm) == [k |-> "ok", vm |-> vm]
R(vm) == [k |-> "ret", vm |-> vm]           \* post-Genesis top-level OP_RETURN: script ends now
DS(vm, ds) == S([vm EXCEPT !.ds = ds])

NumOK(b, cx, maxlen) == Len(b) <= maxlen /\ (cx.f.minimaldata => IsMinimal(b))
Num(b) == Decode(b)
NumItem(n) == Encode(n)

\* ---- helpers for operand patterns -------------------------------------------------------------
Unary(vm, cx, F(_)) ==
    IF Len(vm.ds) < 1 \/ ~NumOK(Top(vm.ds, 1), cx, MaxNumLen(cx)) THEN E
    ELSE DS(vm, Push(Pop(vm.ds, 1), NumItem(F(Num(Top(vm.ds, 1))))))
Binary(vm, cx, F(_, _)) ==
    IF Len(vm.ds) < 2 \/ ~NumOK(Top(vm.ds, 1), cx, MaxNumLen(cx)) \/ ~NumOK(Top(vm.ds, 2), cx, MaxNumLen(cx)) THEN E
    ELSE DS(vm, Push(Pop(vm.ds, 2), NumItem(F(Num(Top(vm.ds, 2)), Num(Top(vm.ds, 1))))))
BoolN(v) == IF v THEN One ELSE Zero
VerifyTop(r) == IF r.k # "ok" THEN r
                ELSE IF Truthy(Top(r.vm.ds, 1)) THEN DS(r.vm, Pop(r.vm.ds, 1)) ELSE E

\* big-endian bit shifts of a fixed-length byte string
LShiftB(x, n) == LET L == Len(x) IN
                 IF L = 0 \/ n >= 8 * L THEN Zeros(L)
                 ELSE LET q == n \div 8  r == n % 8
                          X(j) == IF j <= L THEN x[j] ELSE 0
                      IN [i \in 1..L |-> ((X(i + q) * (2 ^ r)) % 256) + (X(i + q + 1) \div (2 ^ (8 - r)))]
RShiftB(x, n) == LET L == Len(x) IN
                 IF L = 0 \/ n >= 8 * L THEN Zeros(L)
                 ELSE LET q == n \div 8  r == n % 8
                          X(j) == IF j >= 1 THEN x[j] ELSE 0
                      IN [i \in 1..L |-> (X(i - q) \div (2 ^ r)) + ((X(i - q - 1) * (2 ^ (8 - r))) % 256)]

\* lock-time comparison shared by CLTV and CSV (operands are non-negative numbers)
SameClass(a, b, thr) == (CmpN(a, thr) < 0 /\ CmpN(b, thr) < 0) \/ (CmpN(a, thr) >= 0 /\ CmpN(b, thr) >= 0)
LockThreshold == FromInt(500000000)
SeqDisable(le4) == le4[4] >= 128                         \* bit 31
SeqMasked(le4) == FromLE(<<le4[1], le4[2], ((le4[3] \div 64) % 2) * 64>>)   \* type flag (bit 22) | low 16 bits
SeqTypeThr == FromInt(4194304)                           \* 1 << 22
\* a script number restricted to 32 bits (CSV operand after the disable-bit test) as LE4
NumLE4(n) == [i \in 1..4 |-> Dig(n.mag, i)]

IsHashOp(op) == op >= OP_RIPEMD160 /\ op <= OP_HASH256
HashLen(op) == IF op = OP_RIPEMD160 \/ op = OP_SHA1 \/ op = OP_HASH160 THEN 20 ELSE 32
IsSigOp(op) == op >= OP_CHECKSIG /\ op <= OP_CHECKMULTISIGVERIFY
IsCondOp(op) == op >= OP_IF /\ op <= OP_ENDIF

\* ---- signature opcodes (SigCheck.tla) over the abstract signature context cx.sx ---------------------
MaxKeys(cx) == IF cx.genesis THEN Huge ELSE 20
SigResult(vm, r, verify, npop) ==
    IF r.k = "err" THEN E
    ELSE IF ~verify THEN DS(vm, Push(Pop(vm.ds, npop), BoolItem(r.res)))
    ELSE IF r.res THEN DS(vm, Pop(vm.ds, npop)) ELSE E
SigExec(vm, cx, t) ==
    LET ds == vm.ds
        n == Len(ds)
        toks == vm.scripts[vm.sidx].toks
    IN
    IF t.op = OP_CHECKSIG \/ t.op = OP_CHECKSIGVERIFY
    THEN IF n < 2 THEN E
         ELSE SigResult(vm, CheckSig(cx.sx, toks, vm.csep, Top(ds, 2), Top(ds, 1), cx.f), t.op = OP_CHECKSIGVERIFY, 2)
    ELSE IF n < 1 \/ ~NumOK(Top(ds, 1), cx, MaxNumLen(cx)) THEN E
    ELSE LET nk == ToInt(Num(Top(ds, 1))) IN
         IF nk < 0 \/ nk > MaxKeys(cx) \/ vm.nops + nk > MaxOps(cx) THEN E
         ELSE IF n < nk + 2 \/ ~NumOK(Top(ds, nk + 2), cx, MaxNumLen(cx)) THEN E
         ELSE LET ns == ToInt(Num(Top(ds, nk + 2))) IN
              IF ns < 0 \/ ns > nk THEN E
              ELSE IF n < nk + ns + 3 THEN E
              ELSE LET keys == [j \in 1..nk |-> Top(ds, 1 + j)]
                       sigs == [j \in 1..ns |-> Top(ds, nk + 2 + j)]
                       v1 == [vm EXCEPT !.nops = @ + nk]
                   IN SigResult(v1, CheckMultiSig(cx.sx, toks, vm.csep, sigs, keys, Top(ds, nk + ns + 3), cx.f),
                                t.op = OP_CHECKMULTISIGVERIFY, nk + ns + 3)

\* ---- one opcode (no limit checks, no advance) ------------------------------------------------------
Exec(vm, cx, t, fExec, orc) ==
    LET ds == vm.ds
        n == Len(ds)
        op == t.op
    IN
    CASE op = OP_1NEGATE -> DS(vm, Push(ds, <<129>>))
      [] op >= OP_1 /\ op <= OP_16 -> DS(vm, Push(ds, <<op - 80>>))
      [] op = OP_NOP -> S(vm)
      [] op = OP_NOP1 \/ (op >= OP_NOP4 /\ op <= OP_NOP10) -> IF cx.f.discourage THEN E ELSE S(vm)
      [] op = OP_CLTV ->
           IF ~cx.f.cltv \/ cx.genesis THEN (IF cx.f.discourage THEN E ELSE S(vm))
           ELSE IF n < 1 \/ ~NumOK(Top(ds, 1), cx, 5) THEN E
           ELSE LET lk == Num(Top(ds, 1))  txlt == FromLE(cx.lt) IN
                IF lk.neg THEN E
                ELSE IF ~SameClass(txlt, lk, LockThreshold) THEN E
                ELSE IF CmpN(lk, txlt) > 0 THEN E
                ELSE IF cx.seq = <<255, 255, 255, 255>> THEN E
                ELSE S(vm)
      [] op = OP_CSV ->
           IF ~cx.f.csv \/ cx.genesis THEN (IF cx.f.discourage THEN E ELSE S(vm))
           ELSE IF n < 1 \/ ~NumOK(Top(ds, 1), cx, 5) THEN E
           ELSE LET sq == Num(Top(ds, 1)) IN
                IF sq.neg THEN E
                ELSE IF SeqDisable(NumLE4(sq)) THEN S(vm)
                ELSE IF LEVal(cx.ver) < 2 THEN E
                ELSE IF SeqDisable(cx.seq) THEN E
                ELSE LET a == SeqMasked(cx.seq)  b == SeqMasked(NumLE4(sq)) IN
                     IF ~SameClass(a, b, SeqTypeThr) THEN E
                     ELSE IF CmpN(b, a) > 0 THEN E ELSE S(vm)
      \* ---- flow control
      [] op = OP_IF \/ op = OP_NOTIF ->
           IF ~fExec THEN S([vm EXCEPT !.vfe = Append(@, FALSE), !.vfl = Append(@, FALSE)])
           ELSE IF n < 1 THEN E
           ELSE LET v == Top(ds, 1) IN
                IF cx.f.minimalif /\ (Len(v) > 1 \/ (Len(v) = 1 /\ v[1] # 1)) THEN E
                ELSE S([vm EXCEPT !.ds = Pop(ds, 1),
                                  !.vfe = Append(@, IF op = OP_IF THEN Truthy(v) ELSE ~Truthy(v)),
                                  !.vfl = Append(@, FALSE)])
      [] op = OP_VERIF \/ op = OP_VERNOTIF -> IF cx.genesis /\ ~fExec THEN S(vm) ELSE E
      [] op = OP_ELSE ->
           IF vm.vfe = <<>> THEN E
           ELSE IF cx.genesis /\ vm.vfl[Len(vm.vfl)] THEN E
           ELSE S([vm EXCEPT !.vfe[Len(vm.vfe)] = ~@, !.vfl[Len(vm.vfl)] = TRUE])
      [] op = OP_ENDIF ->
           IF vm.vfe = <<>> THEN E
           ELSE S([vm EXCEPT !.vfe = Pop(@, 1), !.vfl = Pop(@, 1)])
      [] op = OP_VERIFY -> IF n < 1 THEN E ELSE VerifyTop(S(vm))
      [] op = OP_RETURN ->
           IF ~cx.genesis THEN E
           ELSE IF vm.vfe = <<>> THEN R(vm)
           ELSE S([vm EXCEPT !.early = TRUE])
      \* ---- stack
      [] op = OP_TOALTSTACK -> IF n < 1 THEN E ELSE S([vm EXCEPT !.ds = Pop(ds, 1), !.as = Push(@, Top(ds, 1))])
      [] op = OP_FROMALTSTACK -> IF vm.as = <<>> THEN E
                                 ELSE S([vm EXCEPT !.ds = Push(ds, Top(vm.as, 1)), !.as = Pop(@, 1)])
      [] op = OP_2DROP -> IF n < 2 THEN E ELSE DS(vm, Pop(ds, 2))
      [] op = OP_2DUP -> IF n < 2 THEN E ELSE DS(vm, ds \o <<Top(ds, 2), Top(ds, 1)>>)
      [] op = OP_3DUP -> IF n < 3 THEN E ELSE DS(vm, ds \o <<Top(ds, 3), Top(ds, 2), Top(ds, 1)>>)
      [] op = OP_2OVER -> IF n < 4 THEN E ELSE DS(vm, ds \o <<Top(ds, 4), Top(ds, 3)>>)
      [] op = OP_2ROT -> IF n < 6 THEN E
                         ELSE DS(vm, Pop(ds, 6) \o <<Top(ds, 4), Top(ds, 3), Top(ds, 2), Top(ds, 1), Top(ds, 6), Top(ds, 5)>>)
      [] op = OP_2SWAP -> IF n < 4 THEN E ELSE DS(vm, Pop(ds, 4) \o <<Top(ds, 2), Top(ds, 1), Top(ds, 4), Top(ds, 3)>>)
      [] op = OP_IFDUP -> IF n < 1 THEN E ELSE IF Truthy(Top(ds, 1)) THEN DS(vm, Push(ds, Top(ds, 1))) ELSE S(vm)
      [] op = OP_DEPTH -> DS(vm, Push(ds, NumItem(FromInt(n))))
      [] op = OP_DROP -> IF n < 1 THEN E ELSE DS(vm, Pop(ds, 1))
      [] op = OP_DUP -> IF n < 1 THEN E ELSE DS(vm, Push(ds, Top(ds, 1)))
      [] op = OP_NIP -> IF n < 2 THEN E ELSE DS(vm, Push(Pop(ds, 2), Top(ds, 1)))
      [] op = OP_OVER -> IF n < 2 THEN E ELSE DS(vm, Push(ds, Top(ds, 2)))
      [] op = OP_PICK \/ op = OP_ROLL ->
           IF n < 2 \/ ~NumOK(Top(ds, 1), cx, MaxNumLen(cx)) THEN E
           ELSE LET k == ToInt(Num(Top(ds, 1)))
                    rest == Pop(ds, 1) IN
                IF k < 0 \/ k >= Len(rest) THEN E
                ELSE LET item == Top(rest, k + 1) IN
                     IF op = OP_PICK THEN DS(vm, Push(rest, item))
                     ELSE DS(vm, Push(SubSeq(rest, 1, Len(rest) - k - 1) \o SubSeq(rest, Len(rest) - k + 1, Len(rest)), item))
      [] op = OP_ROT -> IF n < 3 THEN E ELSE DS(vm, Pop(ds, 3) \o <<Top(ds, 2), Top(ds, 1), Top(ds, 3)>>)
      [] op = OP_SWAP -> IF n < 2 THEN E ELSE DS(vm, Pop(ds, 2) \o <<Top(ds, 1), Top(ds, 2)>>)
      [] op = OP_TUCK -> IF n < 2 THEN E ELSE DS(vm, Pop(ds, 2) \o <<Top(ds, 1), Top(ds, 2), Top(ds, 1)>>)
      \* ---- splice
      [] op = OP_CAT -> IF n < 2 THEN E
                        ELSE IF Len(Top(ds, 2)) + Len(Top(ds, 1)) > MaxElem(cx) THEN E
                        ELSE DS(vm, Push(Pop(ds, 2), Top(ds, 2) \o Top(ds, 1)))
      [] op = OP_SPLIT ->
           IF n < 2 \/ ~NumOK(Top(ds, 1), cx, MaxNumLen(cx)) THEN E
           ELSE LET k == ToInt(Num(Top(ds, 1)))  x == Top(ds, 2) IN
                IF k < 0 \/ k > Len(x) THEN E
                ELSE DS(vm, Pop(ds, 2) \o <<Take(x, k), Drop(x, k)>>)
      [] op = OP_NUM2BIN ->
           IF n < 2 \/ ~NumOK(Top(ds, 1), cx, MaxNumLen(cx)) THEN E
           ELSE LET k == ToInt(Num(Top(ds, 1)))
                    m == MinEncode(Top(ds, 2)) IN
                IF k < 0 \/ k > MaxElem(cx) THEN E
                ELSE IF Len(m) > k THEN E
                ELSE IF k > ModelLimit THEN TooBig
                ELSE IF Len(m) = k THEN DS(vm, Push(Pop(ds, 2), m))
                ELSE IF m = <<>> THEN DS(vm, Push(Pop(ds, 2), Zeros(k)))
                ELSE LET last == m[Len(m)] IN
                     DS(vm, Push(Pop(ds, 2), SubSeq(m, 1, Len(m) - 1) \o <<last % 128>> \o Zeros(k - Len(m) - 1) \o
                                             <<IF last >= 128 THEN 128 ELSE 0>>))
      [] op = OP_BIN2NUM ->
           IF n < 1 THEN E
           ELSE LET m == MinEncode(Top(ds, 1)) IN
                IF Len(m) > MaxNumLen(cx) THEN E ELSE DS(vm, Push(Pop(ds, 1), m))
      [] op = OP_SIZE -> IF n < 1 THEN E ELSE DS(vm, Push(ds, NumItem(FromInt(Len(Top(ds, 1))))))
      \* ---- bitwise
      [] op = OP_INVERT -> IF n < 1 THEN E
                           ELSE DS(vm, Push(Pop(ds, 1), [i \in 1..Len(Top(ds, 1)) |-> 255 - Top(ds, 1)[i]]))
      [] op = OP_AND \/ op = OP_OR \/ op = OP_XOR ->
           IF n < 2 THEN E
           ELSE LET a == Top(ds, 2)  b == Top(ds, 1) IN
                IF Len(a) # Len(b) THEN E
                ELSE DS(vm, Push(Pop(ds, 2), [i \in 1..Len(a) |->
                          IF op = OP_AND THEN a[i] & b[i] ELSE IF op = OP_OR THEN a[i] | b[i] ELSE a[i] ^^ b[i]]))
      [] op = OP_EQUAL -> IF n < 2 THEN E ELSE DS(vm, Push(Pop(ds, 2), BoolItem(Top(ds, 2) = Top(ds, 1))))
      [] op = OP_EQUALVERIFY -> IF n < 2 THEN E ELSE IF Top(ds, 2) = Top(ds, 1) THEN DS(vm, Pop(ds, 2)) ELSE E
      [] op = OP_LSHIFT \/ op = OP_RSHIFT ->
           IF n < 2 \/ ~NumOK(Top(ds, 1), cx, MaxNumLen(cx)) THEN E
           ELSE LET k == Num(Top(ds, 1))  x == Top(ds, 2) IN
                IF k.neg THEN E
                ELSE DS(vm, Push(Pop(ds, 2), IF op = OP_LSHIFT THEN LShiftB(x, ToInt(k)) ELSE RShiftB(x, ToInt(k))))
      \* ---- arithmetic
      [] op = OP_1ADD -> Unary(vm, cx, LAMBDA a : AddN(a, One))
      [] op = OP_1SUB -> Unary(vm, cx, LAMBDA a : SubN(a, One))
      [] op = OP_NEGATE -> Unary(vm, cx, NegN)
      [] op = OP_ABS -> Unary(vm, cx, AbsN)
      [] op = OP_NOT -> Unary(vm, cx, LAMBDA a : BoolN(IsZeroN(a)))
      [] op = OP_0NOTEQUAL -> Unary(vm, cx, LAMBDA a : BoolN(~IsZeroN(a)))
      [] op = OP_ADD -> Binary(vm, cx, AddN)
      [] op = OP_SUB -> Binary(vm, cx, SubN)
      [] op = OP_MUL -> Binary(vm, cx, MulN)
      [] op = OP_DIV \/ op = OP_MOD ->
           IF n < 2 \/ ~NumOK(Top(ds, 1), cx, MaxNumLen(cx)) \/ ~NumOK(Top(ds, 2), cx, MaxNumLen(cx)) THEN E
           ELSE IF IsZeroN(Num(Top(ds, 1))) THEN E
           ELSE Binary(vm, cx, LAMBDA a, b : IF op = OP_DIV THEN DivN(a, b) ELSE ModN(a, b))
      [] op = OP_BOOLAND -> Binary(vm, cx, LAMBDA a, b : BoolN(~IsZeroN(a) /\ ~IsZeroN(b)))
      [] op = OP_BOOLOR -> Binary(vm, cx, LAMBDA a, b : BoolN(~IsZeroN(a) \/ ~IsZeroN(b)))
      [] op = OP_NUMEQUAL -> Binary(vm, cx, LAMBDA a, b : BoolN(CmpN(a, b) = 0))
      [] op = OP_NUMEQUALVERIFY -> VerifyTop(Binary(vm, cx, LAMBDA a, b : BoolN(CmpN(a, b) = 0)))
      [] op = OP_NUMNOTEQUAL -> Binary(vm, cx, LAMBDA a, b : BoolN(CmpN(a, b) # 0))
      [] op = OP_LESSTHAN -> Binary(vm, cx, LAMBDA a, b : BoolN(CmpN(a, b) < 0))
      [] op = OP_GREATERTHAN -> Binary(vm, cx, LAMBDA a, b : BoolN(CmpN(a, b) > 0))
      [] op = OP_LESSTHANOREQUAL -> Binary(vm, cx, LAMBDA a, b : BoolN(CmpN(a, b) <= 0))
      [] op = OP_GREATERTHANOREQUAL -> Binary(vm, cx, LAMBDA a, b : BoolN(CmpN(a, b) >= 0))
      [] op = OP_MIN -> Binary(vm, cx, LAMBDA a, b : IF CmpN(a, b) < 0 THEN a ELSE b)
      [] op = OP_MAX -> Binary(vm, cx, LAMBDA a, b : IF CmpN(a, b) > 0 THEN a ELSE b)
      [] op = OP_WITHIN ->
           IF n < 3 \/ ~NumOK(Top(ds, 1), cx, MaxNumLen(cx)) \/ ~NumOK(Top(ds, 2), cx, MaxNumLen(cx))
                    \/ ~NumOK(Top(ds, 3), cx, MaxNumLen(cx)) THEN E
           ELSE LET x == Num(Top(ds, 3))  lo == Num(Top(ds, 2))  hi == Num(Top(ds, 1)) IN
                DS(vm, Push(Pop(ds, 3), BoolItem(CmpN(lo, x) <= 0 /\ CmpN(x, hi) < 0)))
      \* ---- crypto: results come from the oracle
      [] IsHashOp(op) -> IF n < 1 THEN E
                         ELSE IF Len(orc.top) # HashLen(op) THEN E
                         ELSE DS(vm, Push(Pop(ds, 1), orc.top))
      [] op = OP_CODESEPARATOR -> S([vm EXCEPT !.csep = vm.pc])
      [] IsSigOp(op) -> IF cx.sigmode = "oracle" THEN SigExec(vm, cx, t) ELSE U
      \* OP_RESERVED, OP_VER, OP_RESERVED1/2, OP_2MUL/2DIV (handled before), undefined opcodes
      [] OTHER -> E

\* ---- script switching --------------------------------------------------------------------------------
Fin(vm) == [vm EXCEPT !.st = "fin"]
Bad(vm) == [vm EXCEPT !.st = "err"]
Reset(vm) == [vm EXCEPT !.as = <<>>, !.vfe = <<>>, !.vfl = <<>>, !.early = FALSE, !.nops = 0, !.csep = 0, !.pc = 1]

\* entering script number k (already stored in vm.scripts): size limit, then skip it if empty
Enter3(vm, cx) == IF vm.scripts[3].len > MaxScript(cx) THEN Bad(vm)
                  ELSE IF vm.scripts[3].toks = <<>> THEN Fin(vm) ELSE vm
End2(vm, cx) ==                                    \* the locking script has ended
    IF ~vm.p2sh THEN Fin(Reset(vm))
    ELSE IF vm.ds = <<>> \/ ~Truthy(Top(vm.ds, 1)) THEN Bad(vm)
    ELSE IF vm.saved = <<>> THEN Bad(vm)
    ELSE LET redeem == Top(vm.saved, 1) IN
         Enter3([Reset(vm) EXCEPT !.sidx = 3, !.ds = Pop(vm.saved, 1),
                                  !.scripts = Append(@, [toks |-> Tokenize(redeem), len |-> Len(redeem)])], cx)
Enter2(vm, cx) == IF vm.scripts[2].len > MaxScript(cx) THEN Bad(vm)
                  ELSE IF vm.scripts[2].toks = <<>> THEN End2(vm, cx) ELSE vm
End1(vm, cx) == Enter2([Reset(vm) EXCEPT !.sidx = 2, !.saved = IF vm.p2sh THEN vm.ds ELSE <<>>], cx)
Enter1(vm, cx) == IF vm.scripts[1].len > MaxScript(cx) THEN Bad(vm)
                  ELSE IF vm.scripts[1].toks = <<>> THEN End1(vm, cx) ELSE vm
EndScript(vm, cx) == IF vm.sidx = 1 THEN End1(vm, cx) ELSE IF vm.sidx = 2 THEN End2(vm, cx) ELSE Fin(Reset(vm))

IsP2SHScript(b) == Len(b) = 23 /\ b[1] = 169 /\ b[2] = 20 /\ b[23] = 135

\* ---- whole-run wrapper (VerifyScript) ------------------------------------------------------------------
Excluded(cx) == cx.f.cleanstack /\ ~cx.f.p2sh         \* outside the rules (the node asserts)

Begin(unlock, lock, cx) ==
    LET ut == Tokenize(unlock)
        p2sh == cx.f.p2sh /\ ~cx.genesis /\ IsP2SHScript(lock)
        vm0 == [sidx |-> 1, pc |-> 1, ds |-> <<>>, as |-> <<>>, vfe |-> <<>>, vfl |-> <<>>, early |-> FALSE,
                nops |-> 0, csep |-> 0, saved |-> <<>>, p2sh |-> p2sh, st |-> "run",
                scripts |-> <<[toks |-> ut, len |-> Len(unlock)], [toks |-> Tokenize(lock), len |-> Len(lock)]>>]
    IN IF (cx.f.sigpushonly \/ p2sh) /\ ~(WellFormed(unlock) /\ PushOnly(ut)) THEN Bad(vm0)
       ELSE Enter1(vm0, cx)

CurTok(vm) == vm.scripts[vm.sidx].toks[vm.pc]
FExec(vm, t) == (\A i \in 1..Len(vm.vfe) : vm.vfe[i]) /\ (~vm.early \/ t.op = OP_RETURN)

Step(vm, cx, orc) ==
    LET t == CurTok(vm)
        fExec == FExec(vm, t)
        toks == vm.scripts[vm.sidx].toks
    IN
    IF t.bad THEN Bad(vm)
    ELSE IF Len(t.data) > MaxElem(cx) THEN Bad(vm)
    ELSE LET nops == IF t.op > OP_16 THEN vm.nops + 1 ELSE vm.nops IN
    IF nops > MaxOps(cx) THEN Bad(vm)
    ELSE IF (t.op = OP_2MUL \/ t.op = OP_2DIV) /\ (~cx.genesis \/ fExec) THEN Bad(vm)
    ELSE LET v1 == [vm EXCEPT !.nops = nops]
             r == IF fExec /\ t.op <= OP_PUSHDATA4
                  THEN (IF cx.f.minimaldata /\ ~MinimalPush(t) THEN E ELSE DS(v1, Push(v1.ds, t.data)))
                  ELSE IF fExec \/ IsCondOp(t.op) THEN Exec(v1, cx, t, fExec, orc)
                  ELSE S(v1)
         IN
         IF r.k = "err" THEN Bad(vm)
         ELSE IF r.k = "unmodelled" THEN [vm EXCEPT !.st = "unmodelled"]
         ELSE IF r.k = "toobig" THEN [vm EXCEPT !.st = "toobig"]
         ELSE IF r.k = "ret" THEN EndScript(r.vm, cx)
         ELSE IF Len(r.vm.ds) + Len(r.vm.as) > MaxStack(cx) THEN Bad(vm)
         ELSE IF vm.pc < Len(toks) THEN [r.vm EXCEPT !.pc = vm.pc + 1]
         ELSE IF r.vm.vfe # <<>> THEN Bad(vm)
         ELSE EndScript(r.vm, cx)

\* final truth / clean-stack test once all scripts have run
Verdict(vm, cx) == IF vm.st = "err" THEN "err"
                   ELSE IF vm.st # "fin" THEN vm.st
                   ELSE IF vm.ds = <<>> THEN "err"
                   ELSE IF ~Truthy(Top(vm.ds, 1)) THEN "err"
                   ELSE IF cx.f.cleanstack /\ Len(vm.ds) # 1 THEN "err"
                   ELSE "ok"

\* the opcode about to run needs an oracle value (hash result)
NeedsOracle(vm) == vm.st = "run" /\ ~CurTok(vm).bad /\ IsHashOp(CurTok(vm).op) /\ FExec(vm, CurTok(vm)) /\ vm.ds # <<>>

\* run without observations (no hash/sig oracle): stops as "unmodelled" at the first opcode needing one
NoOracle == [top |-> <<>>]
RECURSIVE Run(_, _)
Run(vm, cx) == IF vm.st # "run" THEN vm
               ELSE IF NeedsOracle(vm) THEN [vm EXCEPT !.st = "unmodelled"]
               ELSE Run(Step(vm, cx, NoOracle), cx)

\* termination measure: tokens still to be executed (strictly decreases with every Step)
Remaining(vm) == IF vm.st # "run" THEN 0
                 ELSE Len(vm.scripts[vm.sidx].toks) - vm.pc + 1 +
                      (IF vm.sidx = 1 THEN Len(vm.scripts[2].toks) + 1 ELSE 0) +
                      (IF vm.sidx <= 2 /\ vm.p2sh THEN ModelLimit ELSE 0)
=================================================================================
