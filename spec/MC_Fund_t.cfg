SPECIFICATION Spec
CONSTANTS
  MaxReplies = 4
INVARIANTS OutputsUntouched PriorInputsKept AppendedAreFinal SuccessCovers InsufficientMeansDeficit EmitCase
PROPERTIES OnlyWhileDeficit NoCallAfterCovered
CHECK_DEADLOCK FALSE
