------------------------------- MODULE Trace_TxWire ------------------------------
(* Trace validation for C01 (codec lossless & canonical) and C09 (decoding total and       *)
(* resource-bounded).  Each event is one public call of the real library with its          *)
(* arguments, result and the projected transaction(s).                                     *)
(*   ser   : a transaction built through the API, serialised (Bytes / ExtendedBytes)        *)
(*   parse : a byte string given to one decoding entry point                               *)
(* `h` on an event is the hash-oracle value sha256d(std) computed by python hashlib.       *)
EXTENDS TraceLib, TxWire

VARIABLE l
Ev == Trace[l]

AllocBound(n) == 64 * n + 262144

SerOK(e) == /\ e.std = Ser(e.tx, FALSE)
            /\ e.extb = Ser(e.tx, TRUE)
            /\ e.clonestd /\ e.cloneext
            /\ e.txid = Rev(e.h)

ItemAPIs == {"input", "inputext", "output"}
ExactAPIs == {"bytes", "bytes-retained", "json", "jsonnode", "jsonhex", "jsonnodehex"}
\* field-wise JSON decoders given whole documents: judged for totality only (a value or an error)
OpaqueAPIs == {"jsondoc-tx", "jsondoc-input", "jsondoc-output", "jsondoc-utxo", "jsondoc-nodeutxo"}
Item(r, f) == IF r.ok THEN [ok |-> TRUE, used |-> r.next - 1, item |-> r[f], minimal |-> r.minimal] ELSE r

P(e) == CASE e.api \in ExactAPIs -> ParseExact(e.in)
          [] e.api \in {"list", "listp"} -> ParseList(e.in)
          [] e.api = "input" -> Item(ParseIn(e.in, 1, FALSE), "in")
          [] e.api = "inputext" -> Item(ParseIn(e.in, 1, TRUE), "in")
          [] e.api = "output" -> Item(ParseOut(e.in, 1), "out")
          [] OTHER -> ParseStream(e.in)

\* the transactions the call produced, as the spec sees them
SpecTxs(e, p) == IF e.api \in {"list", "listp"} THEN p.txs ELSE <<[tx |-> p.tx, ext |-> p.ext]>>

\* C01: accepted exactly when the specification's parser accepts; same transaction, same
\* bytes consumed, canonical re-serialisation in both formats, txid, clone.
CodecOK(e) ==
    LET p == P(e) IN
    /\ e.ok = p.ok
    /\ (e.ok /\ e.api \in ItemAPIs) => (e.used = p.used /\ e.item = p.item)
    /\ (e.ok /\ e.api \notin ItemAPIs) =>
        /\ e.api \notin ExactAPIs => e.used = p.used
        \* a reader is consumed to exactly the end of the transaction / list: what follows stays in the source
        /\ Has(e, "left") => e.left = Len(e.in) - p.used
        /\ Len(e.txs) = Len(SpecTxs(e, p))
        /\ \A k \in 1..Len(e.txs) :
              LET s == SpecTxs(e, p)[k]
                  t == e.txs[k] IN
              /\ t.tx = s.tx
              /\ t.std = Ser(s.tx, FALSE)
              /\ t.extb = Ser(s.tx, TRUE)
              /\ t.clonestd /\ t.cloneext
              /\ t.txid = Rev(t.h)
        /\ (p.minimal /\ e.api \notin {"list", "listp"}) =>
              SubSeq(e.in, 1, p.used) = Ser(p.tx, p.ext)

\* C09: total (a value or an error), never more bytes reported than supplied, allocation
\* proportional to the input
TotalOK(e) == /\ e.outcome \in {"ok", "err"}
              /\ e.used <= Len(e.in)
              /\ e.alloc <= AllocBound(Len(e.in))

Init == l = 1
Next == /\ l <= Len(Trace)
        /\ l' = l + 1
        /\ Mark(l)
        /\ CASE Ev.ev = "ser" -> (~SerOK(Ev)) => Reject(l, [cls |-> "c01", ev |-> "ser"])
             [] Ev.ev = "parse" ->
                  /\ (Ev.api \notin OpaqueAPIs /\ Ev.outcome # "panic" /\ ~CodecOK(Ev)) => Reject(l, [cls |-> "c01", ev |-> "parse", specok |-> P(Ev).ok])
                  /\ (~TotalOK(Ev)) => Reject(l, [cls |-> "c09", ev |-> "parse", specok |-> IF Ev.api \in OpaqueAPIs THEN TRUE ELSE P(Ev).ok])
             [] OTHER -> Reject(l, [cls |-> "c01", ev |-> "unknown"])
Spec == Init /\ [][Next]_l
=================================================================================
