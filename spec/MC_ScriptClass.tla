------------------------------- MODULE MC_ScriptClass -------------------------------
(* Template instances and their mutations, enumerated exhaustively: each byte replaced by    *)
(* one of {00, 4c, 4d, 4e, 6a, ff}, each prefix (truncation), each byte deleted, short    *)
(* insertions (incl. 01, which turns the next byte into data), each direct push re-encoded   *)
(* as PUSHDATA1/2/4.  On every   *)
(* generated string at most one template holds (disjointness), and the string is emitted as   *)
(* a case for the library's inspection queries.                                               *)
EXTENDS ScriptClass, FiniteSets, TLC, Json

H20 == [i \in 1..20 |-> 16 + i]
K33 == <<2>> \o [i \in 1..32 |-> 64 + i]
K65 == <<4>> \o [i \in 1..64 |-> 100 + (i % 100)]
P2PKH == <<118, 169, 20>> \o H20 \o <<136, 172>>
Instances == {P2PKH,
              <<33>> \o K33 \o <<172>>, <<65>> \o K65 \o <<172>>,
              <<81, 33>> \o K33 \o <<81, 174>>, <<81, 33>> \o K33 \o <<33>> \o K33 \o <<82, 174>>,
              <<82, 33>> \o K33 \o <<65>> \o K65 \o <<82, 174>>,
              <<106>>, <<106, 2, 1, 2>>, <<0, 106>>, <<0, 106, 76, 1, 7>>, <<0, 106, 81, 81, 174>>,
              <<169, 20>> \o H20 \o <<135>>,
              P2PKH \o <<0, 99, 3, 111, 114, 100, 81, 4, 116, 101, 120, 116, 0, 2, 104, 105, 104>>,
              P2PKH \o <<0, 99, 3, 111, 114, 100, 81, 1, 116, 0, 0, 104>>,
              P2PKH \o <<0, 99, 3, 111, 114, 100, 81, 1, 116, 0, 1, 104, 104, 106, 1, 9>>,
              <<1, 2, 76, 0>>, <<76, 0, 81, 81, 174>>, <<>>}
             \* data carriers with two pushes of every short length (a, b in 1..5), both prefixes
             \cup {pre \o <<a>> \o [i \in 1..a |-> 96 + i] \o <<b>> \o [i \in 1..b |-> 64 + i] :
                      pre \in {<<106>>, <<0, 106>>}, a \in 1..5, b \in 1..5}
Repl == {0, 76, 77, 78, 106, 255}

VARIABLES s, mutated
vars == <<s, mutated>>
Init == s \in Instances /\ mutated = FALSE
Mutate == /\ ~mutated /\ mutated' = TRUE
          /\ \/ \E i \in 1..Len(s), c \in Repl : s' = [s EXCEPT ![i] = c]
             \/ \E i \in 0..(Len(s) - 1) : s' = SubSeq(s, 1, i)
             \/ \E i \in 1..Len(s) : s' = SubSeq(s, 1, i - 1) \o SubSeq(s, i + 1, Len(s))
             \/ \E i \in 0..Len(s), ins \in {<<76, 0>>, <<77, 0, 0>>, <<0>>, <<1, 7>>, <<106>>, <<1>>} : s' = SubSeq(s, 1, i) \o ins \o SubSeq(s, i + 1, Len(s))
             \* a direct push re-encoded in a longer form (same data, different bytes)
             \/ \E i \in 1..Len(s), f \in {<<76>>, <<77, 0>>, <<78, 0, 0, 0>>} :
                  /\ s[i] >= 1 /\ s[i] <= 75
                  /\ s' = SubSeq(s, 1, i - 1) \o <<f[1], s[i]>> \o Tail(f) \o SubSeq(s, i + 1, Len(s))
Next == Mutate
Spec == Init /\ [][Next]_vars

Disjoint == Cardinality(Templates(s)) <= 1
InstancesRecognised == (~mutated /\ s # <<>> /\ s \notin {<<1, 2, 76, 0>>, <<76, 0, 81, 81, 174>>, <<169, 20>> \o H20 \o <<135>>}) => TemplateType(s) # "none"
EmitCase == PrintT(ToJson([k |-> "case", s |-> s]))
=================================================================================
