SPECIFICATION Spec
CONSTANTS
  Miners = {"m1", "m2", ""}
  NObjs = 2
POSTCONDITION Linearized
CHECK_DEADLOCK FALSE
