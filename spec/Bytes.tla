---------------------------------- MODULE Bytes ----------------------------------
(* Byte strings are tuples of 0..255.  Numbers that may exceed 2^31-1 (TLC integers are    *)
(* 32 bit and trap on overflow) are never TLC integers: fixed-width fields stay byte       *)
(* tuples, lengths/counts are integers only when they fit.                                *)
EXTENDS Integers, Sequences, SequencesExt, FiniteSets

Byte == 0..255
Huge == 2147483647                      \* stands for every value >= 2^31-1

Mx(a, b) == IF a > b THEN a ELSE b
Mn(a, b) == IF a < b THEN a ELSE b
Idx(n) == [i \in 1..n |-> i]
Rep(b, n) == [i \in 1..n |-> b]
Zeros(n) == Rep(0, n)
Rev(s) == [i \in 1..Len(s) |-> s[Len(s) + 1 - i]]
Take(s, n) == SubSeq(s, 1, Mn(n, Len(s)))
Drop(s, n) == SubSeq(s, n + 1, Len(s))
Slice(s, pos, n) == SubSeq(s, pos, pos + n - 1)           \* n bytes starting at 1-based pos
IsPrefixOf(p, s) == Len(p) <= Len(s) /\ SubSeq(s, 1, Len(p)) = p
Concat(ss) == FlattenSeq(ss)

\* little-endian encodings of a small natural number
LE(n, w) == [i \in 1..w |-> (n \div (256 ^ (i - 1))) % 256]     \* w <= 3 (256^3 fits)
LE16(n) == <<n % 256, (n \div 256) % 256>>
LE32(n) == <<n % 256, (n \div 256) % 256, (n \div 65536) % 256, (n \div 16777216) % 256>>
LE64(n) == LE32(n) \o <<0, 0, 0, 0>>

\* value of a little-endian byte tuple, Huge when it does not fit
LEVal(bs) == LET n == Len(bs)
                 hi == {i \in 1..n : bs[i] # 0}
                 top == IF hi = {} THEN 0 ELSE CHOOSE i \in hi : \A j \in hi : j <= i
             IN IF top = 0 THEN 0
                ELSE IF top > 4 \/ (top = 4 /\ bs[4] >= 128) THEN Huge
                ELSE LET d(i) == IF i <= n THEN bs[i] ELSE 0
                     IN d(1) + 256 * d(2) + 65536 * d(3) + 16777216 * d(4)

\* ---- Bitcoin varint ---------------------------------------------------------------------
VarIntEnc(n) == IF n < 253 THEN <<n>>
                ELSE IF n < 65536 THEN <<253>> \o LE16(n)
                ELSE <<254>> \o LE32(n)                      \* n < 2^31 always here
VarIntLen(n) == IF n < 253 THEN 1 ELSE IF n < 65536 THEN 3 ELSE 5

\* Decode at 1-based position pos of b.  ok = FALSE when the bytes run out.
\* val = integer value (Huge if >= 2^31-1); w = width; minimal = shortest form used.
VarIntAt(b, pos) ==
    IF pos > Len(b) THEN [ok |-> FALSE, val |-> 0, w |-> 0, minimal |-> TRUE]
    ELSE LET t == b[pos]
             w == IF t < 253 THEN 1 ELSE IF t = 253 THEN 3 ELSE IF t = 254 THEN 5 ELSE 9
         IN IF pos + w - 1 > Len(b) THEN [ok |-> FALSE, val |-> 0, w |-> w, minimal |-> TRUE]
            ELSE IF w = 1 THEN [ok |-> TRUE, val |-> t, w |-> 1, minimal |-> TRUE]
            ELSE LET v == LEVal(SubSeq(b, pos + 1, pos + w - 1))
                 IN [ok |-> TRUE, val |-> v, w |-> w,
                     minimal |-> IF w = 3 THEN v >= 253
                                 ELSE IF w = 5 THEN v >= 65536
                                 ELSE \E i \in 5..8 : b[pos + i] # 0]     \* w = 9: needs > 32 bits

VarBytes(s) == VarIntEnc(Len(s)) \o s
=================================================================================
