------------------------------- MODULE MC_FeeQuoteConc -------------------------------
(* All pairs (or triples) of methods run by concurrent threads under the lock discipline      *)
(* observed in the real code (JSON file named by the environment variable DISC).              *)
EXTENDS TLC, Json, IOUtils, Sequences, FiniteSets
CONSTANT NThreads
ObsDisc == JsonDeserialize(IOEnv.DISC)
ThreadSet == IF NThreads = 2 THEN {"t1", "t2"} ELSE {"t1", "t2", "t3"}
VARIABLES calls, pc, writer, readers, inacc, raced
INSTANCE FeeQuoteConc WITH Threads <- ThreadSet, Disc <- ObsDisc
\* report every race the discipline admits (one line per terminal state that saw one)
EmitRaced == ((\A t \in ThreadSet : Done(t)) /\ raced # {}) => PrintT(ToJson([k |-> "raced", raced |-> raced]))
=================================================================================
