---------------------------- MODULE PushHdrInd ----------------------------
(* Unbounded check (Apalache) of the data-push header used by ScriptTok!PushPrefix / EncodeParts: for *)
(* every length n in 1..2^31-2 the header decodes to n, has the width the tokeniser expects, and is    *)
(* the shortest form for that length.                                                                  *)
EXTENDS Integers, Sequences

VARIABLE
  \* @type: Int;
  n

\* @type: (Int) => Seq(Int);
Prefix(v) == IF v <= 75 THEN <<v>>
             ELSE IF v <= 255 THEN <<76, v>>
             ELSE IF v <= 65535 THEN <<77, v % 256, v \div 256>>
             ELSE <<78, v % 256, (v \div 256) % 256, (v \div 65536) % 256, (v \div 16777216) % 256>>

\* what a tokeniser reads back: [width of the header, announced data length]
\* @type: (Seq(Int)) => Int;
HdrWidth(h) == IF h[1] <= 75 THEN 1 ELSE IF h[1] = 76 THEN 2 ELSE IF h[1] = 77 THEN 3 ELSE 5
\* @type: (Seq(Int)) => Int;
HdrLen(h) == IF h[1] <= 75 THEN h[1]
             ELSE IF h[1] = 76 THEN h[2]
             ELSE IF h[1] = 77 THEN h[2] + 256 * h[3]
             ELSE h[2] + 256 * h[3] + 65536 * h[4] + 16777216 * h[5]
\* @type: (Seq(Int)) => Bool;
Shortest(h) == IF h[1] <= 75 THEN TRUE ELSE IF h[1] = 76 THEN HdrLen(h) > 75 ELSE IF h[1] = 77 THEN HdrLen(h) > 255 ELSE HdrLen(h) > 65535

Init == n \in 1..2147483646
Next == n' \in 1..2147483646

RoundTrip == /\ HdrLen(Prefix(n)) = n
             /\ HdrWidth(Prefix(n)) = Len(Prefix(n))
             /\ Shortest(Prefix(n))
             /\ \A i \in DOMAIN Prefix(n) : Prefix(n)[i] \in 0..255
=========================================================================
