-------------------------------- MODULE MC_FeeMath --------------------------------
(* Design check for C10/C11: the change algorithm refines the property-level relation on     *)
(* every scenario of the model - output counts on both sides of the 252/253 varint boundary,  *)
(* amount relations around fee / dust, rates above and below 1 sat/byte with unequal data     *)
(* rates, destinations of different script lengths and the existing-output variant - and the  *)
(* estimate is an upper bound of every signed size.                                           *)
EXTENDS FeeMath, TLC, Json

Quotes == {[ss |-> 5, sb |-> 100, ds |-> 5, db |-> 100], [ss |-> 1, sb |-> 1, ds |-> 1, db |-> 2],
           [ss |-> 5, sb |-> 1, ds |-> 1, db |-> 3], [ss |-> 500, sb |-> 1000, ds |-> 7, db |-> 2],
           [ss |-> 1, sb |-> 3, ds |-> 0, db |-> 1], [ss |-> 7, sb |-> 2, ds |-> 5, db |-> 100]}
P2PKHOut(a) == [sats |-> a, slen |-> 25, data |-> FALSE]
DataOut(n) == [sats |-> 0, slen |-> n, data |-> TRUE]
OutLists == {<<>>, <<P2PKHOut(1000)>>, <<P2PKHOut(1000), DataOut(10)>>, <<DataOut(300), P2PKHOut(546)>>}
            \cup {[k \in 1..n |-> P2PKHOut(1)] : n \in {251, 252, 253}}
In(a, u) == [sats |-> a, ulen |-> u, kind |-> "p2pkh"]
Dests == {[kind |-> "new", slen |-> 25, data |-> FALSE, idx |-> 0], [kind |-> "new", slen |-> 1, data |-> FALSE, idx |-> 0],
          [kind |-> "new", slen |-> 35, data |-> FALSE, idx |-> 0], [kind |-> "new", slen |-> 253, data |-> FALSE, idx |-> 0],
          [kind |-> "existing", slen |-> 0, data |-> FALSE, idx |-> 1]}

VARIABLES pre, q, dest, res, phase
vars == <<pre, q, dest, res, phase>>

\* input amounts are placed around the interesting thresholds of each scenario
Base(outs, qq, d, nin, signed) ==
    LET t0 == [ins |-> [k \in 1..nin |-> In(0, IF signed THEN 106 ELSE 0)], outs |-> outs]
        need == SumOut(t0) + FeeFor(EstSizes(WithChange(t0, IF d.kind = "existing" /\ outs = <<>> THEN [d EXCEPT !.kind = "new"] ELSE d, 0)), qq).total
    IN need
Scen == {[outs |-> o, qq |-> qq, d |-> d, nin |-> n, signed |-> s, delta |-> dl] :
           o \in OutLists, qq \in Quotes, d \in Dests, n \in 1..2, s \in BOOLEAN,
           dl \in {-5, -1, 0, 1, 2, 3, 10, 5000}}

Init == /\ \E sc \in Scen :
             /\ (sc.d.kind = "existing" => sc.outs # <<>>)
             /\ LET need == Base(sc.outs, sc.qq, sc.d, sc.nin, sc.signed)
                    amt == IF need + sc.delta < 0 THEN 0 ELSE need + sc.delta
                IN pre = [ins |-> [k \in 1..sc.nin |-> In(IF k = 1 THEN amt ELSE 0, IF sc.signed THEN 106 ELSE 0)], outs |-> sc.outs]
             /\ q = sc.qq /\ dest = sc.d
        /\ res = [ok |-> FALSE, post |-> pre] /\ phase = "new"
DoChange == /\ phase = "new" /\ phase' = "done" /\ res' = ChangeAlg(pre, q, dest) /\ UNCHANGED <<pre, q, dest>>
Next == DoChange
Spec == Init /\ [][Next]_vars

\* ---- properties -------------------------------------------------------------------------------------
Refines == (phase = "done" /\ res.ok) => ChangeRel(pre, res.post, q, dest)
FailsOnlyWhenShort == (phase = "done" /\ ~res.ok) => SumIn(pre) < SumOut(pre)
NeverCreatesValue == (phase = "done") => SumOut(res.post) <= SumIn(res.post)
SizeIdentity == LET s == Sizes(pre) IN s.total = s.std + s.data /\ s.data <= s.total
\* an estimate made before signing bounds every size a signing step (unlocking scripts <= 107 bytes) can produce
EstimateUpper == (\A k \in 1..Len(pre.ins) : pre.ins[k].ulen = 0) => \A u \in {100, 105, 106, 107} :
                    TotalSize([pre EXCEPT !.ins = [k \in 1..Len(pre.ins) |-> [pre.ins[k] EXCEPT !.ulen = u]]]) <= EstSizes(pre).total

EmitCase == (phase = "done") => PrintT(ToJson([k |-> "case", pre |-> pre, q |-> q, dest |-> dest]))
=================================================================================
