-------------------------------- MODULE MC_BIP276 -------------------------------
(* Exhaustive model of a BIP276 session: encode a record, optionally corrupt one          *)
(* character of the text, decode.  Checksum = a positional toy sum that, like the real    *)
(* one, changes under every single-character substitution.                                *)
EXTENDS Integers, Sequences, TLC, Json

Dig8(n) == [i \in 1..8 |-> LET d == (n \div (16 ^ (8 - i))) % 16 IN IF d < 10 THEN 48 + d ELSE 87 + d]
ToyCK(p) == LET RECURSIVE S(_)
                S(i) == IF i = 0 THEN 0 ELSE (S(i - 1) + i * p[i]) % 1000003
            IN Dig8(S(Len(p)))

INSTANCE BIP276
Dec(t) == Decodes(t, IF Len(t) >= 8 THEN ToyCK(Body(t)) ELSE <<>>)

CONSTANTS Vals, Alphabet
Prefixes == {<<115>>, <<116, 45>>}
Datas == {<<>>, <<0>>, <<171, 205>>}

VARIABLES rec, text, corrupted, phase, hist, cpos, cch
vars == <<rec, text, corrupted, phase, hist, cpos, cch>>

Recs == [prefix : Prefixes, version : Vals, network : Vals, data : Datas]

Init == /\ rec \in Recs /\ text = <<>> /\ corrupted = FALSE /\ phase = "new" /\ hist = <<>> /\ cpos = 0 /\ cch = 0

DoEncode == /\ phase = "new"
            /\ text' = Encode(rec, ToyCK(Payload(rec)))
            /\ phase' = "encoded"
            /\ hist' = Append(hist, "enc")
            /\ UNCHANGED <<rec, corrupted, cpos, cch>>

DoCorrupt == /\ phase = "encoded" /\ ~corrupted /\ ValidRec(rec)
             /\ \E i \in 1..Len(text), c \in Alphabet :
                   /\ Lower(c) # Lower(text[i])
                   /\ text' = [text EXCEPT ![i] = c]
                   /\ cpos' = i /\ cch' = c
             /\ corrupted' = TRUE
             /\ hist' = Append(hist, "cor")
             /\ UNCHANGED <<rec, phase>>

DoDecode == /\ phase = "encoded"
            /\ phase' = "decoded"
            /\ hist' = Append(hist, "dec")
            /\ UNCHANGED <<rec, text, corrupted, cpos, cch>>

Next == DoEncode \/ DoCorrupt \/ DoDecode
Spec == Init /\ [][Next]_vars

\* ---- properties ---------------------------------------------------------------------------
RoundTrip == (phase = "decoded" /\ ~corrupted /\ ValidRec(rec)) => (Dec(text) /\ Fields(text) = rec)
RejectsCorrupted == (phase = "decoded" /\ corrupted) => ~Dec(text)
InvalidIsError == (phase # "new" /\ ~ValidRec(rec)) => (text = ErrorText /\ ~Dec(text))
LayoutInv == (phase = "encoded" /\ ~corrupted /\ ValidRec(rec)) =>
               /\ SubSeq(text, 1, Len(rec.prefix)) = rec.prefix
               /\ text[Len(rec.prefix) + 1] = Colon
               /\ SubSeq(text, Len(rec.prefix) + 2, Len(rec.prefix) + 3) = Hex2(rec.version)
               /\ SubSeq(text, Len(rec.prefix) + 4, Len(rec.prefix) + 5) = Hex2(rec.network)
               /\ Len(text) = Len(rec.prefix) + 5 + 2 * Len(rec.data) + 8

\* ---- generator: one replayable case per encoded / corrupted text ---------------------------
EmitCase == phase = "decoded" =>
              PrintT(ToJson([k |-> "case", rec |-> rec, cpos |-> cpos, cch |-> cch]))
=================================================================================
