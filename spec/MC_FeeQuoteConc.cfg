SPECIFICATION Spec
CONSTANTS
  NThreads = 2
INVARIANTS MutexInv LockBalanced EmitRaced
PROPERTIES AllReturn
