-------------------------------- MODULE TraceLib --------------------------------
(* Shared plumbing of every Trace_*.tla: the NDJSON trace recorded from the real library,  *)
(* JSON emission, and the high-water mark of consumed lines (register 1; -workers 1).      *)
EXTENDS Integers, Sequences, TLC, Json, IOUtils

Trace == ndJsonDeserialize(IOEnv.TRACE)

Emit(rec) == PrintT(ToJson(rec))

\* an event of the real code that no action of the specification explains
Reject(i, why) == Emit([k |-> "reject", i |-> i, why |-> why])

Mark(i) == TLCSet(1, i)

\* POSTCONDITION of every trace config: report how many lines were consumed
Consumed == Emit([k |-> "consumed", n |-> TLCGet(1)])

Has(r, f) == f \in DOMAIN r
=================================================================================
