--------------------------------- MODULE ScriptClass --------------------------------
(* Standard script templates as predicates over script bytes, pairwise disjoint by          *)
(* construction, and the contract the library's inspection queries must satisfy (C14).       *)
EXTENDS ScriptTok

IsP2PKHT(s) == Len(s) = 25 /\ s[1] = 118 /\ s[2] = 169 /\ s[3] = 20 /\ s[24] = 136 /\ s[25] = 172
IsP2SHT(s) == Len(s) = 23 /\ s[1] = 169 /\ s[2] = 20 /\ s[23] = 135
IsDataT(s) == StartsAsData(s)
IsKeyPush(t) == IsDataPush(t.op) /\ ~t.bad /\
                \/ (Len(t.data) = 33 /\ t.data[1] \in {2, 3})
                \/ (Len(t.data) = 65 /\ t.data[1] \in {4, 6, 7})
IsSmallInt(op) == op >= OP_1 /\ op <= OP_16
IsP2PKT(s) == WellFormed(s) /\ LET t == Tokenize(s) IN
              Len(t) = 2 /\ IsKeyPush(t[1]) /\ t[2].op = OP_CHECKSIG
\* bare m-of-n: OP_m <key>*n OP_n OP_CHECKMULTISIG with 1 <= m <= n
IsMultisigT(s) == WellFormed(s) /\ LET t == Tokenize(s) IN
                  /\ Len(t) >= 4 /\ IsSmallInt(t[1].op) /\ IsSmallInt(t[Len(t) - 1].op) /\ t[Len(t)].op = OP_CHECKMULTISIG
                  /\ t[Len(t) - 1].op - 80 = Len(t) - 3
                  /\ t[1].op <= t[Len(t) - 1].op
                  /\ \A k \in 2..(Len(t) - 2) : IsKeyPush(t[k])
\* P2PKH prefix followed by the ordinals envelope  OP_FALSE OP_IF "ord" OP_1 <content type> OP_0 <data> OP_ENDIF
IsInscriptionT(s) == Len(s) > 25 /\ IsP2PKHT(SubSeq(s, 1, 25)) /\ WellFormed(s) /\
                     LET t == Tokenize(s) IN
                     /\ Len(t) >= 13
                     /\ t[6].op = OP_0 /\ t[7].op = OP_IF /\ t[8].op = 3 /\ t[8].data = <<111, 114, 100>> /\ t[9].op = OP_1
                     /\ IsDataPush(t[10].op) /\ t[11].op = OP_0 /\ (IsDataPush(t[12].op) \/ t[12].op = OP_0) /\ t[13].op = OP_ENDIF
                     /\ (Len(t) > 13 => t[14].op = OP_RETURN)

\* The library's own test (isP2PKHInscriptionHelper) works on the *parts* view and is looser than the template: any
\* part may stand where an opcode is expected as long as its first byte is that opcode, the hash push may have any
\* length.  It decides which spent scripts the size estimate supports, so it is specified as the code has it.
LibInscription(s) ==
    WellFormed(s) /\
    LET p == PartsOf(Tokenize(s)) IN
    /\ Len(p) >= 13
    /\ \A i \in 1..Mn(14, Len(p)) : (p[i] = <<>>) => i \in {3, 10, 12}
    /\ Len(p[8]) >= 3
    /\ p[1][1] = OP_DUP /\ p[2][1] = OP_HASH160 /\ p[4][1] = OP_EQUALVERIFY /\ p[5][1] = OP_CHECKSIG
    /\ p[6][1] = OP_0 /\ p[7][1] = OP_IF /\ SubSeq(p[8], 1, 3) = <<111, 114, 100>> /\ p[9][1] = OP_1
    /\ p[11][1] = OP_0 /\ p[13][1] = OP_ENDIF
    /\ (Len(p) > 13 => p[14][1] = OP_RETURN)

TemplateType(s) == IF s = <<>> THEN "empty"
                   ELSE IF IsP2PKHT(s) THEN "pubkeyhash"
                   ELSE IF IsP2PKT(s) THEN "pubkey"
                   ELSE IF IsMultisigT(s) THEN "multisig"
                   ELSE IF IsDataT(s) THEN "nulldata"
                   ELSE IF IsInscriptionT(s) THEN "pubkeyhashinscription"
                   ELSE "none"
Templates(s) == {x \in {"pubkeyhash", "pubkey", "multisig", "nulldata", "pubkeyhashinscription"} :
                   \/ (x = "pubkeyhash" /\ IsP2PKHT(s)) \/ (x = "pubkey" /\ IsP2PKT(s)) \/ (x = "multisig" /\ IsMultisigT(s))
                   \/ (x = "nulldata" /\ IsDataT(s)) \/ (x = "pubkeyhashinscription" /\ IsInscriptionT(s))}
KeyBearing == {"pubkeyhash", "pubkey", "multisig", "pubkeyhashinscription"}

\* what an inspection result r (record of observations) must satisfy for script s
Contract(s, r) ==
    /\ r.panics = <<>>                                              \* every query returns
    /\ (TemplateType(s) # "none") => r.type = TemplateType(s)        \* templates are recognised
    /\ (r.type = "pubkeyhash") => IsP2PKHT(s)
    /\ (r.type = "nulldata") => IsDataT(s)
    /\ (~WellFormed(s)) => r.type \notin KeyBearing                   \* undecodable: never key-bearing
    /\ r.isP2PKH = IsP2PKHT(s) /\ r.isP2SH = IsP2SHT(s) /\ r.isData = IsDataT(s)
    /\ IsP2PKT(s) => r.isP2PK
    /\ IsMultisigT(s) => r.isMulti
    /\ IsInscriptionT(s) => r.isInscr
    /\ (~WellFormed(s)) => (~r.isP2PK /\ ~r.isMulti /\ ~r.isInscr)
    /\ IsP2PKHT(s) => (r.pkh.ok /\ r.pkh.h = SubSeq(s, 4, 23))
=================================================================================
