---------------------------- MODULE VarIntInd ----------------------------
(* Unbounded check (Apalache, symbolic) of the varint codec used by every wire-format module: *)
(* for every n in 0..2^31-2, decoding the encoding gives n back, consumes exactly the bytes    *)
(* written, and the encoding is the minimal one.  (TLC checks this for sampled n only.)        *)
EXTENDS Integers, Sequences

VARIABLE
  \* @type: Int;
  n

\* @type: (Int) => Seq(Int);
Enc(v) == IF v < 253 THEN <<v>>
          ELSE IF v < 65536 THEN <<253, v % 256, (v \div 256) % 256>>
          ELSE <<254, v % 256, (v \div 256) % 256, (v \div 65536) % 256, (v \div 16777216) % 256>>

\* @type: (Seq(Int)) => Int;
Width(b) == IF b[1] < 253 THEN 1 ELSE IF b[1] = 253 THEN 3 ELSE IF b[1] = 254 THEN 5 ELSE 9
\* @type: (Seq(Int)) => Int;
Val(b) == IF b[1] < 253 THEN b[1]
          ELSE IF b[1] = 253 THEN b[2] + 256 * b[3]
          ELSE b[2] + 256 * b[3] + 65536 * b[4] + 16777216 * b[5]
\* @type: (Seq(Int)) => Bool;
Minimal(b) == IF b[1] < 253 THEN TRUE ELSE IF b[1] = 253 THEN Val(b) >= 253 ELSE Val(b) >= 65536

Init == n \in 0..2147483646
Next == n' \in 0..2147483646

RoundTrip == /\ Val(Enc(n)) = n
             /\ Width(Enc(n)) = Len(Enc(n))
             /\ Minimal(Enc(n))
             /\ \A i \in DOMAIN Enc(n) : Enc(n)[i] \in 0..255
=========================================================================
