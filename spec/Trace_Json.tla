--------------------------------- MODULE Trace_Json ---------------------------------
(* Trace validation for C16.                                                                 *)
(*  json   : an object at some lifecycle state marshalled and unmarshalled in a dialect:       *)
(*           outcome ok / err (never a panic); ok => same serialisation, txid, scripts, amounts *)
(*  amount : one satoshi amount through the node-JSON / library JSON of an output or UTXO      *)
(*  range  : a whole range of amounts, summarised by the number that did not come back equal   *)
EXTENDS TraceLib

VARIABLE l
Ev == Trace[l]

JsonOK(e) == /\ e.outcome \in {"ok", "err"}
             /\ (e.outcome = "ok") => (e.back = e.orig)       \* projections: bytes, ids, scripts, amounts
             /\ e.expectok => e.outcome = "ok"                  \* fully signed / no nil scripts: must succeed
AmountOK(e) == e.outcome = "ok" /\ e.back = e.sats
RangeOK(e) == e.mismatches = 0 /\ e.errors = 0

Init == l = 1
Next == /\ l <= Len(Trace)
        /\ l' = l + 1
        /\ Mark(l)
        /\ CASE Ev.ev = "json" -> (~JsonOK(Ev)) => Reject(l, [ev |-> "json"])
             [] Ev.ev = "amount" -> (~AmountOK(Ev)) => Reject(l, [ev |-> "amount"])
             [] Ev.ev = "range" -> (~RangeOK(Ev)) => Reject(l, [ev |-> "range"])
             [] OTHER -> Reject(l, [ev |-> Ev.ev])
Spec == Init /\ [][Next]_l
=================================================================================
