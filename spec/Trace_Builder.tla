------------------------------- MODULE Trace_Builder ------------------------------
(* Trace validation for the transaction builder: C11 (size / fee accounting, estimate upper *)
(* bound), C10 (change relation), C12 (funding protocol).  Events carry the projected        *)
(* transaction before/after the call (amounts, script lengths, the spent-script bytes and    *)
(* the first bytes of each locking script so that the *specification* classifies them).      *)
EXTENDS TraceLib, Fund

VARIABLE l
Ev == Trace[l]

InB(i) == [sats |-> i.sats, ulen |-> i.ulen, kind |-> KindOf(i.present, i.ps)]
InF(i) == [sats |-> i.sats, ulen |-> i.ulen, kind |-> KindOf(i.present, i.ps), id |-> i.id, vout |-> i.vout, seq |-> i.seq]
OutB(o) == [sats |-> o.sats, slen |-> o.slen, data |-> IsDataHead(o.head)]
ToB(p) == [ins |-> [k \in 1..Len(p.ins) |-> InB(p.ins[k])], outs |-> [k \in 1..Len(p.outs) |-> OutB(p.outs[k])]]
ToF(p) == [ins |-> [k \in 1..Len(p.ins) |-> InF(p.ins[k])], outs |-> [k \in 1..Len(p.outs) |-> OutB(p.outs[k])]]
SzRec(s) == [total |-> s.total, std |-> s.std, data |-> s.data]

FeesOK(e) ==
    LET t == ToB(e.tx)
        sz == Sizes(t)
        est == Estimable(t)
        esz == EstSizes(t)
    IN /\ SzRec(e.size) = sz /\ e.real = sz.total /\ e.sizefn = sz.total
       /\ e.est.ok = est
       /\ est => (SzRec(e.est) = esz /\ e.est.sizefn = esz.total)
       /\ e.paid.ok /\ e.paid.val = Enough(t, sz, e.q)
       /\ e.estpaid.ok = est
       /\ est => e.estpaid.val = Enough(t, esz, e.q)
       /\ e.estfees.ok = est
       /\ est => [std |-> e.estfees.std, data |-> e.estfees.data, total |-> e.estfees.total] = FeeFor(esz, e.q)

SignedOK(e) == e.real <= e.est /\ \A k \in 1..Len(e.ulens) : e.ulens[k] <= UnlockEstimate

Dest(e) == [kind |-> e.dest.kind, slen |-> e.dest.slen, data |-> IsDataHead(e.dest.head), idx |-> e.dest.idx]
ChangeOK(e) ==
    LET pre == ToB(e.pre)  post == ToB(e.post)  d == Dest(e) IN
    IF e.ok THEN (d.kind = "existing" => d.idx \in 1..Len(pre.outs)) /\ ChangeRel(pre, post, e.q, d)
    ELSE /\ post = pre
         /\ \/ SumIn(pre) < SumOut(pre)
            \/ ~Estimable(pre)
            \/ (d.kind = "existing" /\ d.idx \notin 1..Len(pre.outs))

Reply(r) == [kind |-> r.kind, utxos |-> [k \in 1..Len(r.utxos) |->
                 [id |-> r.utxos[k].id, vout |-> r.utxos[k].vout, sats |-> r.utxos[k].sats, kind |-> KindOf(r.utxos[k].present, r.utxos[k].ps)]]]
FundOK(e) ==
    LET t0 == ToF(e.pre)
        fs == FundRun(FundInit(t0, [k \in 1..Len(e.replies) |-> Reply(e.replies[k])]), e.q)
    IN /\ e.calls = fs.calls
       /\ e.outcome = fs.outcome
       /\ ToF(e.post) = fs.tx

Init == l = 1
Next == /\ l <= Len(Trace)
        /\ l' = l + 1
        /\ Mark(l)
        /\ CASE Ev.ev = "fees" -> (~FeesOK(Ev)) => Reject(l, [cls |-> "c11", ev |-> "fees"])
             [] Ev.ev = "signed" -> (~SignedOK(Ev)) => Reject(l, [cls |-> "c11", ev |-> "signed"])
             [] Ev.ev = "change" -> (~ChangeOK(Ev)) => Reject(l, [cls |-> "c10", ev |-> "change"])
             [] Ev.ev = "fund" -> (~FundOK(Ev)) => Reject(l, [cls |-> "c12", ev |-> "fund"])
             [] OTHER -> Reject(l, [cls |-> "any", ev |-> Ev.ev])
Spec == Init /\ [][Next]_l
=================================================================================
