---------------------------------- MODULE MC_Commit ----------------------------------
(* The commitment table of the twelve standard hash types, stated independently of the      *)
(* preimage construction, and checked against SigHash.tla: for every model transaction,      *)
(* signed input, hash type and single-field mutation, the preimage changes exactly when the   *)
(* table says the field is committed.  (By the abstract signature relation - a signature      *)
(* verifies iff it was made over exactly the required preimage - this is "a mutation           *)
(* invalidates the signature iff the hash type commits to the mutated field".)                 *)
EXTENDS SigHash, TLC

StdTypes == {1, 2, 3, 129, 130, 131, 65, 66, 67, 193, 194, 195}
Fields == {"version", "locktime", "own-outpoint", "other-outpoint", "own-sequence", "other-sequence", "spent-value", "spent-script",
           "out-same-value", "out-same-script", "out-other-value", "out-append", "in-append"}

In(n) == [txid |-> Rep(16 * n + 1, 32), vout |-> LE32(n), us |-> <<>>, seq |-> <<255 - n, 255, 255, 255>>, sats |-> LE64(1000 * n + 7),
          ps |-> <<118, 169, 20>> \o Rep(n, 20) \o <<136, 172>>, hasps |-> TRUE, hasid |-> TRUE]
Out(n) == [sats |-> LE64(500 + n), ls |-> <<118, n>>]
ModelTx == {[ver |-> <<2, 0, 0, 0>>, ins |-> [k \in 1..ni |-> In(k)], outs |-> [k \in 1..no |-> Out(k)], lt |-> <<5, 0, 0, 0>>] : ni \in 1..3, no \in 0..3}

Bump(b) == [b EXCEPT ![1] = (@ + 1) % 256]
Other(tx, i) == IF Len(tx.ins) < 2 THEN 0 ELSE (i % Len(tx.ins)) + 1           \* 1-based position of another input
OtherOut(tx, i) == LET c == {k \in 1..Len(tx.outs) : k # i} IN IF c = {} THEN 0 ELSE CHOOSE k \in c : TRUE

Applicable(tx, i, f) == CASE f \in {"other-outpoint", "other-sequence"} -> Other(tx, i) # 0
                          [] f \in {"out-same-value", "out-same-script"} -> i <= Len(tx.outs)
                          [] f = "out-other-value" -> OtherOut(tx, i) # 0
                          [] OTHER -> TRUE
\* i is the 1-based position of the signed input
Mutate(tx, i, f) ==
    CASE f = "version" -> [tx EXCEPT !.ver = Bump(@)]
      [] f = "locktime" -> [tx EXCEPT !.lt = Bump(@)]
      [] f = "own-outpoint" -> [tx EXCEPT !.ins[i].vout = Bump(@)]
      [] f = "other-outpoint" -> [tx EXCEPT !.ins[Other(tx, i)].vout = Bump(@)]
      [] f = "own-sequence" -> [tx EXCEPT !.ins[i].seq = Bump(@)]
      [] f = "other-sequence" -> [tx EXCEPT !.ins[Other(tx, i)].seq = Bump(@)]
      [] f = "spent-value" -> [tx EXCEPT !.ins[i].sats = Bump(@)]
      [] f = "spent-script" -> [tx EXCEPT !.ins[i].ps = Append(@, 97)]
      [] f = "out-same-value" -> [tx EXCEPT !.outs[i].sats = Bump(@)]
      [] f = "out-same-script" -> [tx EXCEPT !.outs[i].ls = Append(@, 97)]
      [] f = "out-other-value" -> [tx EXCEPT !.outs[OtherOut(tx, i)].sats = Bump(@)]
      [] f = "out-append" -> [tx EXCEPT !.outs = Append(@, Out(9))]
      [] f = "in-append" -> [tx EXCEPT !.ins = Append(@, In(9))]

\* ---- the table (BSV replay-protected digest document, legacy sighash rules) -----------------------------
Base(ht) == ht % 32
AcpT(ht) == ht >= 128
ForkT(ht) == (ht \div 64) % 2 = 1
\* legacy SINGLE with no matching output signs the constant 1: it commits to nothing at all
SingleBugT(tx, i, ht) == ~ForkT(ht) /\ Base(ht) = 3 /\ i > Len(tx.outs)
Commits(tx, i, ht, f) ==
    IF SingleBugT(tx, i, ht) THEN (f = "out-append" /\ i = Len(tx.outs) + 1)     \* ... until the output appears
    ELSE CASE f \in {"version", "locktime", "own-outpoint", "own-sequence", "spent-script"} -> TRUE
           [] f = "spent-value" -> ForkT(ht)
           [] f = "other-outpoint" -> ~AcpT(ht)
           [] f = "in-append" -> ~AcpT(ht)
           [] f = "other-sequence" -> ~AcpT(ht) /\ Base(ht) = 1
           [] f \in {"out-same-value", "out-same-script"} -> Base(ht) \in {1, 3}
           [] f = "out-other-value" -> Base(ht) = 1
           [] f = "out-append" -> Base(ht) = 1 \/ (Base(ht) = 3 /\ ForkT(ht) /\ i = Len(tx.outs) + 1)

VARIABLES tx, i, ht, f
vars == <<tx, i, ht, f>>
Init == tx \in ModelTx /\ i \in 1..Len(tx.ins) /\ ht \in StdTypes /\ f \in Fields
Next == UNCHANGED vars
Spec == Init /\ [][Next]_vars

Pre(t, ix, h) == LET h4 == <<h, 0, 0, 0>> IN IF ForkT(h) THEN PreimageForkID(t, ix - 1, h4) ELSE PreimageLegacy(t, ix - 1, h4)
CommitTheorem == Applicable(tx, i, f) => ((Pre(Mutate(tx, i, f), i, ht) # Pre(tx, i, ht)) <=> Commits(tx, i, ht, f))
=================================================================================
