SPECIFICATION Spec
CONSTANTS
  Family = "binary"
INVARIANTS Total StackBound CondShape ElementBound EmitCase
PROPERTIES Terminates
CHECK_DEADLOCK FALSE
