--------------------------------- MODULE BIP276 ---------------------------------
(* BIP276 text encoding of a script/template, over sequences of ASCII codes:              *)
(*     prefix ":" hex2(version) hex2(network) hex(data) hex8(checksum)                    *)
(* The checksum (first 4 bytes of the double SHA-256 of everything before it) is an       *)
(* uninterpreted function CK: the specification fixes *what* is checksummed.              *)
EXTENDS Integers, Sequences

\* The checksum is passed in by the caller of these operators as `ck`: an operator CK(_) of the
\* model-checking module (toy checksum) or the hash-oracle value attached to a trace event.

Colon == 58
HexDigit(d) == IF d < 10 THEN 48 + d ELSE 87 + d
Hex2(b) == <<HexDigit(b \div 16), HexDigit(b % 16)>>
HexOf(bs) == [i \in 1..2 * Len(bs) |->
                 HexDigit(IF i % 2 = 1 THEN bs[(i + 1) \div 2] \div 16 ELSE bs[i \div 2] % 16)]

IsHexChar(c) == (c >= 48 /\ c <= 57) \/ (c >= 97 /\ c <= 102) \/ (c >= 65 /\ c <= 70)
IsLowerHexChar(c) == (c >= 48 /\ c <= 57) \/ (c >= 97 /\ c <= 102)
HexVal(c) == IF c <= 57 THEN c - 48 ELSE IF c >= 97 THEN c - 87 ELSE c - 55

ValidRec(r) == r.version \in 1..255 /\ r.network \in 1..255

Payload(r) == r.prefix \o <<Colon>> \o Hex2(r.version) \o Hex2(r.network) \o HexOf(r.data)

ErrorText == <<69, 82, 82, 79, 82>>          \* "ERROR"

\* ck = checksum of Payload(r)
Encode(r, ck) == IF ValidRec(r) THEN Payload(r) \o ck ELSE ErrorText

\* ---- decoding ---------------------------------------------------------------------------
Colons(t) == {i \in 1..Len(t) : t[i] = Colon}
FirstColon(t) == CHOOSE i \in Colons(t) : \A j \in Colons(t) : i <= j

\* the layout after the first colon: 2+2 hex, an even number >= 0 of hex chars, 8 hex chars
LayoutOK(t) ==
    /\ Colons(t) # {}
    /\ LET k == FirstColon(t) IN
       /\ k > 1
       /\ Len(t) >= k + 12
       /\ (Len(t) - k) % 2 = 0
       /\ \A i \in (k + 1)..Len(t) : IsHexChar(t[i])

Fields(t) ==
    LET k == FirstColon(t)
        nd == (Len(t) - k - 12) \div 2
    IN [prefix  |-> SubSeq(t, 1, k - 1),
        version |-> 16 * HexVal(t[k + 1]) + HexVal(t[k + 2]),
        network |-> 16 * HexVal(t[k + 3]) + HexVal(t[k + 4]),
        data    |-> [i \in 1..nd |-> 16 * HexVal(t[k + 4 + 2 * i - 1]) + HexVal(t[k + 4 + 2 * i])]]

Body(t) == SubSeq(t, 1, Len(t) - 8)
Tail8(t) == SubSeq(t, Len(t) - 7, Len(t))

\* Canonical = exactly what Encode produces (lower-case hex).  Texts that differ from a valid
\* encoding only in the case of hex letters are outside the specification (either answer).
Canonical(t) == LayoutOK(t) /\ Payload(Fields(t)) = Body(t)

\* ck = checksum of Body(t)
Decodes(t, ck) == /\ Canonical(t)
                  /\ ValidRec(Fields(t))
                  /\ Tail8(t) = ck

CaseVariant(t) == LayoutOK(t) /\ ~Canonical(t)

Lower(c) == IF c >= 65 /\ c <= 70 THEN c + 32 ELSE c
=================================================================================
