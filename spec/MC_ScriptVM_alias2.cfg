SPECIFICATION Spec
CONSTANTS
  Family = "alias2"
INVARIANTS Total StackBound CondShape ElementBound EmitCase
PROPERTIES Terminates
CHECK_DEADLOCK FALSE
