---------------------------------- MODULE FeeStore ----------------------------------
(* Sequential specification of the fee-quote store (fees.go): a FeeQuotes value mapping     *)
(* miner names to quote objects, and FeeQuote objects the caller holds directly.            *)
(*                                                                                          *)
(*   st == [objs   : Seq(q)                 caller-held FeeQuote objects 1..K               *)
(*          miners : Miner -> [kind : "none" | "anon" | "ref", q (anon: its own quote), k (ref: index into objs)]] *)
(*   q  == [fees : FeeTypes -> value | Absent, exp : 0 (creation time) | 1 (far past) | 2 (far future)] *)
(*                                                                                          *)
(* AddMiner stores the caller's *pointer*: the miner and the caller-held object are the     *)
(* same quote from then on ("ref").  AddMinerWithDefault makes a quote nobody else holds.    *)
(* A fee value is an integer naming the Fee the writer stored (default fees are 5).          *)
(* Apply(st, op) == [st, ret] is the one transition function; concurrent histories of the    *)
(* real object must be linearizable with respect to it (Trace_FeeLin), sequential ones       *)
(* follow it step by step.                                                                   *)
EXTENDS Integers, Sequences, FiniteSets

CONSTANTS Miners, NObjs                  \* miner names driven ("" included); caller-held objects
FeeTypes == {"standard", "data", "other", ""}
Absent == -1
DefaultQ == [fees |-> [t \in FeeTypes |-> IF t \in {"standard", "data"} THEN 5 ELSE Absent], exp |-> 0]
NoMiner == [kind |-> "none", q |-> DefaultQ, k |-> 0]

InitStore(first) == [objs |-> [k \in 1..NObjs |-> DefaultQ],
                     miners |-> [m \in Miners |-> IF m = first THEN [kind |-> "anon", q |-> DefaultQ, k |-> 0] ELSE NoMiner]]

\* the quote a miner name denotes, and its replacement
QOf(st, m) == IF st.miners[m].kind = "ref" THEN st.objs[st.miners[m].k] ELSE st.miners[m].q
WithQ(st, m, q) == IF st.miners[m].kind = "ref" THEN [st EXCEPT !.objs[st.miners[m].k] = q]
                   ELSE [st EXCEPT !.miners[m].q = q]

R(st, ret) == [st |-> st, ret |-> ret]
FeeOfQ(q, t) == IF q.fees[t] = Absent THEN [err |-> "type"] ELSE [val |-> q.fees[t]]

Apply(st, op) ==
    CASE op.k = "addDefault" -> R([st EXCEPT !.miners[op.m] = [kind |-> "anon", q |-> DefaultQ, k |-> 0]], [ok |-> TRUE])
      [] op.k = "addMiner" -> R([st EXCEPT !.miners[op.m] = [kind |-> "ref", q |-> DefaultQ, k |-> op.obj]], [ok |-> TRUE])
      [] op.k = "quote" -> R(st, IF st.miners[op.m].kind = "none" THEN [err |-> "miner"] ELSE [ok |-> TRUE])
      [] op.k = "fee" -> R(st, IF st.miners[op.m].kind = "none" THEN [err |-> "miner"] ELSE FeeOfQ(QOf(st, op.m), op.t))
      \* argument check first, then the miner lookup
      [] op.k = "update" -> IF op.m = "" \/ op.t = "" \/ op.v = Absent THEN R(st, [err |-> "empty"])
                            ELSE IF st.miners[op.m].kind = "none" THEN R(st, [err |-> "miner"])
                            ELSE R(WithQ(st, op.m, [QOf(st, op.m) EXCEPT !.fees[op.t] = op.v]), [ok |-> TRUE])
      \* ---- directly on a caller-held quote ----
      [] op.k = "qAdd" -> R([st EXCEPT !.objs[op.obj].fees[op.t] = op.v], [ok |-> TRUE])
      [] op.k = "qFee" -> R(st, FeeOfQ(st.objs[op.obj], op.t))
      [] op.k = "qSetExp" -> R([st EXCEPT !.objs[op.obj].exp = op.x], [ok |-> TRUE])
      [] op.k = "qExp" -> R(st, [x |-> st.objs[op.obj].exp])
      \* Expired compares with the clock: determined only for the far past / far future
      [] op.k = "qExpired" -> R(st, [b |-> CASE st.objs[op.obj].exp = 1 -> "true" [] st.objs[op.obj].exp = 2 -> "false" [] OTHER -> "any"])
      \* MarshalJSON: a snapshot of all present fees
      [] op.k = "qMarshal" -> R(st, [snap |-> st.objs[op.obj].fees])
      \* UnmarshalJSON replaces the whole fee map; any type other than standard/data is refused
      [] op.k = "qUnmarshal" -> IF \E t \in FeeTypes \ {"standard", "data"} : op.fees[t] # Absent THEN R(st, [err |-> "unknowntype"])
                                ELSE R([st EXCEPT !.objs[op.obj].fees = op.fees], [ok |-> TRUE])

\* does the observed reply match the specified one?
RetOK(spec, got) == IF "b" \in DOMAIN spec THEN "b" \in DOMAIN got /\ (spec.b = "any" \/ spec.b = got.b) ELSE spec = got
=================================================================================
