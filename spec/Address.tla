----------------------------------- MODULE Address -----------------------------------
(* Base58 / Base58Check over ASCII code sequences and byte strings (C15).  The checksum     *)
(* (first four bytes of SHA-256d of version + hash) is uninterpreted: the specification says  *)
(* which bytes are checksummed; values are oracle obligations.                                *)
EXTENDS BigNum

B58 == <<49, 50, 51, 52, 53, 54, 55, 56, 57, 65, 66, 67, 68, 69, 70, 71, 72, 74, 75, 76, 77, 78, 80, 81, 82, 83, 84, 85, 86, 87, 88, 89, 90,
         97, 98, 99, 100, 101, 102, 103, 104, 105, 106, 107, 109, 110, 111, 112, 113, 114, 115, 116, 117, 118, 119, 120, 121, 122>>
DigitOf(c) == LET hits == {i \in 1..58 : B58[i] = c} IN IF hits = {} THEN -1 ELSE (CHOOSE i \in hits : TRUE) - 1
ValidChars(s) == \A i \in 1..Len(s) : DigitOf(s[i]) >= 0

LeadingCount(s, c) == LET non == {i \in 1..Len(s) : s[i] # c} IN
                      IF non = {} THEN Len(s) ELSE (CHOOSE i \in non : \A j \in non : i <= j) - 1

\* little-endian magnitude (BigNum digits) of the base-58 number written in s
MagOf58(s) == FoldLeft(LAMBDA acc, k : AddM(MulD(acc, 58), IF DigitOf(s[k]) = 0 THEN <<>> ELSE <<DigitOf(s[k])>>), <<>>, Idx(Len(s)))
\* bytes denoted by a Base58 string: one zero byte per leading '1', then the big-endian number
Decode58(s) == IF ~ValidChars(s) THEN [ok |-> FALSE, b |-> <<>>]
               ELSE [ok |-> TRUE, b |-> Zeros(LeadingCount(s, 49)) \o Rev(MagOf58(s))]

\* base-58 digits (most significant first) of a magnitude
RECURSIVE Digits58(_)
Digits58(m) == IF m = <<>> THEN <<>> ELSE LET qr == DivModM(m, <<58>>) IN Append(Digits58(qr[1]), IF qr[2] = <<>> THEN 0 ELSE qr[2][1])
Encode58(b) == LET z == LeadingCount(b, 0)
                   d == Digits58(Trim(Rev(SubSeq(b, z + 1, Len(b)))))
               IN Rep(49, z) \o [k \in 1..Len(d) |-> B58[d[k] + 1]]

VersionMain == 0
VersionTest == 111
\* structural part of "s is an address": Base58, 25 bytes, supported version
Structural(s) == LET d == Decode58(s) IN d.ok /\ Len(d.b) = 25 /\ d.b[1] \in {VersionMain, VersionTest}
Payload(s) == Decode58(s).b
HashOf(s) == SubSeq(Payload(s), 2, 21)
CheckedPart(s) == SubSeq(Payload(s), 1, 21)          \* what the checksum is computed over
ChecksumOf(s) == SubSeq(Payload(s), 22, 25)
P2PKHScript(h) == <<118, 169, 20>> \o h \o <<136, 172>>
=================================================================================
