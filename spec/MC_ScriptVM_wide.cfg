SPECIFICATION Spec
CONSTANTS
  Family = "wide"
INVARIANTS Total StackBound CondShape ElementBound EmitCase
PROPERTIES Terminates
CHECK_DEADLOCK FALSE
