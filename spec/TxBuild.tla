--------------------------------- MODULE TxBuild ---------------------------------
(* The transaction builder as a state machine over *objects* (live *bt.Tx values).          *)
(*                                                                                          *)
(*   objs : Seq(tx)        tx == the TxWire record [ver, ins, outs, lt]                      *)
(*                                                                                          *)
(* One operator per public mutating call; Step(objs, o, op) applies call `op` to object o   *)
(* and returns the reply class and the new object table.  Calls that create an object       *)
(* (Clone, serialise + parse) append to the table; every other object is left alone by      *)
(* construction, which is what the conformance check turns into an aliasing test.           *)
(*                                                                                          *)
(* Reply classes: "ok", "err" (error returned, see each call for what was already done),    *)
(* "panic" (the call does not return: named deviations of the code from its documentation,  *)
(* kept as the code has them), "unmodelled" (amounts too large for the fee arithmetic).     *)
(* Observers (View) are pure functions of the object.                                       *)
EXTENDS TxWire, ScriptClass, FeeMath

FinalSeq == <<255, 255, 255, 255>>
NewTx == [ver |-> <<1, 0, 0, 0>>, ins |-> <<>>, outs |-> <<>>, lt |-> Zeros(4)]

\* ---- helpers ----------------------------------------------------------------------------
HexCh(c) == (c >= 48 /\ c <= 57) \/ (c >= 97 /\ c <= 102) \/ (c >= 65 /\ c <= 70)
HexV(c) == IF c <= 57 THEN c - 48 ELSE IF c >= 97 THEN c - 87 ELSE c - 55
\* encoding/hex.DecodeString on a string given as character codes
HexDec(c) == IF Len(c) % 2 = 1 \/ \E i \in 1..Len(c) : ~HexCh(c[i]) THEN [ok |-> FALSE, b |-> <<>>]
             ELSE [ok |-> TRUE, b |-> [i \in 1..(Len(c) \div 2) |-> 16 * HexV(c[2 * i - 1]) + HexV(c[2 * i])]]

\* 64-bit wrapping addition on little-endian 8-byte values (Go uint64)
Add64(a, b) == FoldLeft(LAMBDA acc, i : LET s == a[i] + b[i] + acc.c IN [c |-> s \div 256, v |-> Append(acc.v, s % 256)],
                        [c |-> 0, v |-> <<>>], Idx(8)).v
Sum64(vals) == FoldLeft(LAMBDA acc, k : Add64(acc, vals[k]), Zeros(8), Idx(Len(vals)))

SmallSats == 67108864                       \* 2^26: sums of a handful stay TLC integers
Small(s8) == LEVal(s8) < SmallSats
AllSmall(tx) == (\A k \in 1..Len(tx.ins) : Small(tx.ins[k].sats)) /\ (\A k \in 1..Len(tx.outs) : Small(tx.outs[k].sats))

\* the fee-arithmetic abstraction of an object (module FeeMath)
ToB(tx) == [ins  |-> [k \in 1..Len(tx.ins) |-> [sats |-> LEVal(tx.ins[k].sats), ulen |-> Len(tx.ins[k].us),
                                                 kind |-> KindOf(TRUE, tx.ins[k].ps)]],
            outs |-> [k \in 1..Len(tx.outs) |-> [sats |-> LEVal(tx.outs[k].sats), slen |-> Len(tx.outs[k].ls),
                                                  data |-> IsDataHead(tx.outs[k].ls)]]]

P2PKH(h) == <<118, 169, 20>> \o h \o <<136, 172>>      \* no length check on h: as the code
Push(d) == PushPrefix(Len(d)) \o d
AddOut(tx, sats, ls) == [tx EXCEPT !.outs = Append(@, [sats |-> sats, ls |-> ls])]
NewIn(idDisplay, vout, sats, ps) == [txid |-> Rev(idDisplay), vout |-> vout, us |-> <<>>, seq |-> FinalSeq, sats |-> sats, ps |-> ps]

Ok(tx) == [res |-> "ok", tx |-> tx]
Err(tx) == [res |-> "err", tx |-> tx]

\* ---- calls on one object -----------------------------------------------------------------
\* From(prevTxID hex, vout, prevLockingScript hex, satoshis)
DoFrom(tx, op) ==
    LET ps == HexDec(op.psc)  id == HexDec(op.txidc) IN
    IF ~ps.ok \/ ~id.ok \/ Len(id.b) # 32 THEN Err(tx)
    ELSE Ok([tx EXCEPT !.ins = Append(@, NewIn(id.b, op.vout, op.sats, ps.b))])

\* FromUTXOs(u1, ..., un): stops at the first invalid txid, keeping the inputs already added
DoFromUTXOs(tx, op) ==
    LET r == FoldLeft(LAMBDA acc, k :
                 IF ~acc.ok THEN acc
                 ELSE LET u == op.utxos[k] IN
                      IF Len(u.id) # 32 THEN [acc EXCEPT !.ok = FALSE]
                      ELSE [acc EXCEPT !.tx.ins = Append(@, NewIn(u.id, u.vout, u.sats, u.ps))],
               [ok |-> TRUE, tx |-> tx], Idx(Len(op.utxos)))
    IN [res |-> IF r.ok THEN "ok" ELSE "err", tx |-> r.tx]

DoAddOutput(tx, op) == Ok(AddOut(tx, op.sats, op.ls))
\* PayTo / AddP2PKHOutputFromScript: only the exact P2PKH template is accepted
DoPayTo(tx, op) == IF IsP2PKHT(op.ls) THEN Ok(AddOut(tx, op.sats, op.ls)) ELSE Err(tx)
DoPKHStr(tx, op) == LET h == HexDec(op.hc) IN IF ~h.ok THEN Err(tx) ELSE Ok(AddOut(tx, op.sats, P2PKH(h.b)))
\* AddP2PKHOutputFromPubKeyBytes: op.h160 is the oracle value of HASH160(op.pk)
DoPKBytes(tx, op) == IF Len(op.pk) # 33 THEN Err(tx) ELSE Ok(AddOut(tx, op.sats, P2PKH(op.h160)))
\* AddHashPuzzleOutput(secret, pkh hex, sats): op.h160 is the oracle value of HASH160(secret)
DoHashPuzzle(tx, op) ==
    LET h == HexDec(op.hc) IN
    IF ~h.ok THEN Err(tx)
    ELSE Ok(AddOut(tx, op.sats, <<169>> \o Push(op.h160) \o <<136, 118, 169>> \o Push(h.b) \o <<136, 172>>))
\* AddOpReturnOutput / AddOpReturnPartsOutput: OP_FALSE OP_RETURN then one push per part, 0 satoshis
DoOpReturn(tx, op) == Ok(AddOut(tx, Zeros(8), <<0, 106>> \o EncodeParts(op.parts)))

\* Inscribe(prefix, content type, data): one 1-satoshi output  prefix + ordinals envelope
OrdEnvelope(ct, data) == <<0, 99, 3, 111, 114, 100, 81>> \o Push(ct) \o <<0>> \o Push(data) \o <<104>>
DoInscribe(tx, op) == Ok(AddOut(tx, LE64(1), op.prefix \o OrdEnvelope(op.ct, op.data)))
\* InscribeSpecificOrdinal(args, inputIdx, satoshiIdx, extraScript): a first output absorbing the
\* satoshis in front of the chosen one (sum of the inputs before inputIdx, none of them zero, plus
\* satoshiIdx; 64-bit wrap), then the inscription.  inputIdx may equal the number of inputs.
DoInscribeAt(tx, op) ==
    IF Len(tx.ins) < op.idx THEN Err(tx)
    ELSE IF \E k \in 1..op.idx : tx.ins[k].sats = Zeros(8) THEN Err(tx)
    ELSE IF tx.outs # <<>> THEN Err(tx)
    ELSE LET amount == Add64(Sum64([k \in 1..op.idx |-> tx.ins[k].sats]), op.satidx) IN
         Ok(AddOut(AddOut(tx, amount, op.extra), LE64(1), op.prefix \o OrdEnvelope(op.ct, op.data)))

\* InsertInputUnlockingScript(index, script): indexes the slice before testing it
DoInsertUS(tx, op) == IF op.idx >= Len(tx.ins) THEN [res |-> "panic", tx |-> tx]
                      ELSE Ok([tx EXCEPT !.ins[op.idx + 1].us = op.us])

\* exported fields written directly
DoSet(tx, op) == CASE op.f = "lt" -> Ok([tx EXCEPT !.lt = op.v])
                   [] op.f = "ver" -> Ok([tx EXCEPT !.ver = op.v])
                   [] op.f = "seq" -> IF op.idx >= Len(tx.ins) THEN Ok(tx) ELSE Ok([tx EXCEPT !.ins[op.idx + 1].seq = op.v])

\* 64-bit unsigned comparison / subtraction on little-endian 8-byte values
Leq64(a, b) == LET df == {i \in 1..8 : a[i] # b[i]} IN df = {} \/ (LET k == CHOOSE i \in df : \A j \in df : j <= i IN a[k] < b[k])
Sub64(a, b) == FoldLeft(LAMBDA acc, i : LET d == a[i] - b[i] - acc.c IN [c |-> IF d < 0 THEN 1 ELSE 0, v |-> Append(acc.v, (d + 256) % 256)],
                        [c |-> 0, v |-> <<>>], Idx(8)).v
\* the same computation when amounts do not fit the integer model of FeeMath: sums and the remainder are 64-bit
\* values (Go uint64), the fee depends on sizes only
DoChangeBig(tx, op, d) ==
    LET in == Sum64([k \in 1..Len(tx.ins) |-> tx.ins[k].sats])
        out == Sum64([k \in 1..Len(tx.outs) |-> tx.outs[k].sats])
        b0 == LET b == ToB(tx) IN [ins |-> [k \in 1..Len(b.ins) |-> [b.ins[k] EXCEPT !.sats = 0]], outs |-> [k \in 1..Len(b.outs) |-> [b.outs[k] EXCEPT !.sats = 0]]]
    IN IF d.kind = "existing" /\ d.idx \notin 1..Len(tx.outs) THEN Err(tx)
       ELSE IF ~Leq64(out, in) THEN Err(tx)
       ELSE IF ~ParseExact(Ser(tx, FALSE)).ok THEN [res |-> "fatal", tx |-> tx]
       ELSE IF ~Estimable(b0) THEN Err(tx)
       ELSE LET avail == Sub64(in, out)
                fees == LE64(ChangeFees(b0, op.q, d))
            IN IF Leq64(avail, fees) \/ Leq64(Sub64(avail, fees), LE64(Dust)) THEN Ok(tx)
               ELSE IF d.kind = "new" THEN Ok(AddOut(tx, Sub64(avail, fees), op.ls))
               ELSE Ok([tx EXCEPT !.outs[d.idx].sats = Add64(@, Sub64(avail, fees))])

\* Change(script, quote) / ChangeToExistingOutput(index, quote): module FeeMath decides
DoChange(tx, op) ==
    LET d == IF op.k = "change" THEN [kind |-> "new", slen |-> Len(op.ls), data |-> IsDataHead(op.ls), idx |-> 0]
             ELSE [kind |-> "existing", slen |-> 0, data |-> FALSE, idx |-> op.idx + 1]
    IN IF ~AllSmall(tx) THEN DoChangeBig(tx, op, d)
       ELSE IF d.kind = "existing" /\ d.idx \notin 1..Len(tx.outs) THEN Err(tx)
       ELSE LET b == ToB(tx)  r == ChangeAlg(b, op.q, d) IN
            IF SumIn(b) < SumOut(b) THEN Err(tx)
            \* the size estimate works on a Clone(): the process exits when the object does not re-parse
            ELSE IF ~ParseExact(Ser(tx, FALSE)).ok THEN [res |-> "fatal", tx |-> tx]
            ELSE IF ~r.ok THEN Err(tx)
            ELSE IF r.post = b THEN Ok(tx)
            ELSE IF d.kind = "new" THEN Ok(AddOut(tx, LE64(r.post.outs[Len(r.post.outs)].sats), op.ls))
            ELSE Ok([tx EXCEPT !.outs[d.idx].sats = LE64(r.post.outs[d.idx].sats)])

\* FillAllInputs with the P2PKH unlocker: inputs in order; stops at the first input whose spent
\* script is not a P2PKH (inscription) template, keeping the unlocking scripts already inserted.
\* op.us[k] is the unlocking script produced for input k (any script of the right shape).
Signable(ps) == IsP2PKHT(ps) \/ LibInscription(ps)     \* ScriptType() pubkeyhash / pubkeyhashinscription, as the library tests it
SigShape(us, pk) == WellFormed(us) /\ LET t == Tokenize(us) IN
                    /\ Len(t) = 2 /\ IsDataPush(t[1].op) /\ IsDataPush(t[2].op)
                    /\ t[2].data = pk
                    /\ Len(t[1].data) >= 9 /\ Len(t[1].data) <= 73
                    /\ t[1].data[1] = 48 /\ t[1].data[Len(t[1].data)] = 65       \* DER ... ALL|FORKID
DoSign(tx, op) ==
    LET r == FoldLeft(LAMBDA acc, k :
                 IF ~acc.ok THEN acc
                 ELSE IF ~Signable(tx.ins[k].ps) THEN [acc EXCEPT !.ok = FALSE]
                 ELSE [acc EXCEPT !.tx.ins[k].us = op.us[k]],
               [ok |-> TRUE, tx |-> tx], Idx(Len(tx.ins)))
    IN [res |-> IF r.ok THEN "ok" ELSE "err", tx |-> r.tx]
SignedOK(pre, post, op) == \A k \in 1..Len(pre.ins) : post.ins[k].us # pre.ins[k].us => SigShape(post.ins[k].us, op.pk)

Do(tx, op) ==
    CASE op.k = "from" -> DoFrom(tx, op)
      [] op.k = "fromutxos" -> DoFromUTXOs(tx, op)
      [] op.k = "addoutput" -> DoAddOutput(tx, op)
      [] op.k = "payto" -> DoPayTo(tx, op)
      [] op.k = "pkhstr" -> DoPKHStr(tx, op)
      [] op.k = "pkbytes" -> DoPKBytes(tx, op)
      [] op.k = "hashpuzzle" -> DoHashPuzzle(tx, op)
      [] op.k = "opreturn" -> DoOpReturn(tx, op)
      [] op.k = "inscribe" -> DoInscribe(tx, op)
      [] op.k = "inscribeat" -> DoInscribeAt(tx, op)
      [] op.k = "insertus" -> DoInsertUS(tx, op)
      [] op.k = "set" -> DoSet(tx, op)
      [] op.k \in {"change", "changeexisting"} -> DoChange(tx, op)
      [] op.k = "sign" -> DoSign(tx, op)

\* ---- calls on the object table -----------------------------------------------------------
\* Clone(): serialise, parse, copy the spent outputs over; terminates the process
\* (log.Fatal) when its own serialisation does not parse - reply class "fatal", never driven.
\* reparse: NewTxFromBytes(Bytes()) / NewTxFromBytes(ExtendedBytes())
Step(objs, o, op) ==
    IF op.k = "clone"
    THEN IF ParseExact(Ser(objs[o], FALSE)).ok THEN [res |-> "ok", objs |-> Append(objs, objs[o])]
         ELSE [res |-> "fatal", objs |-> objs]
    ELSE IF op.k = "reparse"
    THEN LET p == ParseExact(Ser(objs[o], op.ext)) IN
         IF p.ok THEN [res |-> "ok", objs |-> Append(objs, p.tx)] ELSE [res |-> "err", objs |-> objs]
    ELSE LET r == Do(objs[o], op) IN [res |-> r.res, objs |-> [objs EXCEPT ![o] = r.tx]]

\* ---- observers ----------------------------------------------------------------------------
IsCoinbase(tx) == /\ Len(tx.ins) = 1 /\ tx.ins[1].txid = Zeros(32)
                  /\ (tx.ins[1].vout = FinalSeq \/ tx.ins[1].seq = FinalSeq)        \* "or": as the code
HasData(tx) == \E k \in 1..Len(tx.outs) : IsDataHead(tx.outs[k].ls)
\* InputIdx / OutputIdx at k >= 0: nil exactly beyond the end
IdxPresent(k, n) == k <= n - 1
IdxProbe(n) == <<IdxPresent(Mx(n - 1, 0), n), IdxPresent(n, n), IdxPresent(n + 1, n)>>   \* last, end, beyond
PrevOutsPre(tx) == Concat([k \in 1..Len(tx.ins) |-> tx.ins[k].txid \o tx.ins[k].vout])
SeqsPre(tx) == Concat([k \in 1..Len(tx.ins) |-> tx.ins[k].seq])

View(tx) == [std |-> Ser(tx, FALSE), ext |-> Ser(tx, TRUE), size |-> Len(Ser(tx, FALSE)),
             nin |-> Len(tx.ins), nout |-> Len(tx.outs),
             totin |-> Sum64([k \in 1..Len(tx.ins) |-> tx.ins[k].sats]),
             totout |-> Sum64([k \in 1..Len(tx.outs) |-> tx.outs[k].sats]),
             cb |-> IsCoinbase(tx), hasdata |-> HasData(tx),
             inidx |-> IdxProbe(Len(tx.ins)), outidx |-> IdxProbe(Len(tx.outs))]

\* ---- properties of every object -------------------------------------------------------------
RoundTripExt(tx) == LET p == ParseExact(Ser(tx, TRUE)) IN p.ok /\ p.ext /\ p.tx = tx /\ p.minimal
RoundTripStd(tx) == LET p == ParseExact(Ser(tx, FALSE)) IN
                    IF Ambiguous(tx) THEN ~p.ok \/ p.ext ELSE p.ok /\ ~p.ext /\ p.tx = StdView(tx) /\ p.minimal
\* the wire module and the fee module agree on sizes
SizeAgree(tx) == Len(Ser(tx, FALSE)) = TotalSize(ToB(tx))
=================================================================================
