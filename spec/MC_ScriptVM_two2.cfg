SPECIFICATION Spec
CONSTANTS
  Family = "two2"
INVARIANTS Total StackBound CondShape ElementBound EmitCase
PROPERTIES Terminates
CHECK_DEADLOCK FALSE
