SPECIFICATION Spec
CONSTANTS
  Family = "alias"
INVARIANTS Total StackBound CondShape ElementBound EmitCase
PROPERTIES Terminates
CHECK_DEADLOCK FALSE
