------------------------------ MODULE Trace_TxBuild ------------------------------
(* Trace validation of builder call sequences recorded from the real library against the   *)
(* TxBuild state machine.                                                                   *)
(*   begin : a fresh NewTx() is object 1                                                    *)
(*   op    : call `op` on object o, reply class `res`, then the observers of EVERY live     *)
(*           object (views).  The specification steps its own object table with Step and    *)
(*           requires every logged observer to be the specification's View of its table:    *)
(*           the object acted on has changed exactly as specified, and no other object has  *)
(*           changed at all (aliasing between clones / parsed copies shows up here).        *)
(* Non-blocking: a disagreement is reported and the table is re-synchronised from the       *)
(* logged extended serialisations so that the rest of the trace is still checked.           *)
(* Hash-valued observers (TxID, PreviousOutHash, SequenceHash) and HASH160 oracle values    *)
(* become hash obligations discharged by python hashlib.                                    *)
EXTENDS TraceLib, TxBuild

VARIABLES l, objs
Ev == Trace[l]

Oblige(kind, in, out) == Emit([k |-> "hash", kind |-> kind, in |-> in, out |-> out, ref |-> l])

\* logged observers of one object against the specification's
Plain(v) == [std |-> v.std, ext |-> v.ext, size |-> v.size, nin |-> v.nin, nout |-> v.nout, totin |-> v.totin,
             totout |-> v.totout, cb |-> v.cb, hasdata |-> v.hasdata, inidx |-> v.inidx, outidx |-> v.outidx]
Diff(a, b) == {f \in DOMAIN a : a[f] # b[f]}

OracleOK(op) == CASE op.k = "pkbytes" -> (Len(op.pk) = 33 => Oblige("hash160", op.pk, op.h160))
                  [] op.k = "hashpuzzle" -> Oblige("hash160", op.secret, op.h160)
                  [] OTHER -> TRUE

HashesOK(tx, v) == /\ Oblige("sha256d", Ser(tx, FALSE), Rev(v.txid))
                   /\ Oblige("sha256d", PrevOutsPre(tx), v.poh)
                   /\ Oblige("sha256d", SeqsPre(tx), v.sqh)

Resync(views, fallback) ==
    [j \in 1..Len(views) |-> LET p == ParseExact(views[j].ext) IN
                             IF p.ok THEN p.tx ELSE IF j <= Len(fallback) THEN fallback[j] ELSE NewTx]

Begin == /\ Ev.ev = "begin"
         /\ objs' = <<NewTx>>
         /\ (Len(Ev.views) # 1 \/ Plain(Ev.views[1]) # View(NewTx)) => Reject(l, [cls |-> "new", why |-> "fresh-object"])

Op == /\ Ev.ev = "op"
      /\ LET o == Ev.o
             r == Step(objs, o, Ev.op)
             n == Len(r.objs)
             bad == IF Ev.res # r.res THEN {[f |-> "reply", who |-> "target"]}
                    ELSE IF Len(Ev.views) # n THEN {[f |-> "objects", who |-> "target"]}
                    ELSE UNION {{[f |-> f, who |-> IF j = o \/ j > Len(objs) THEN "target" ELSE "other"] :
                                    f \in Diff(Plain(Ev.views[j]), View(r.objs[j]))} : j \in 1..n}
             touched == IF Len(Ev.views) = n THEN {j \in 1..n : j = o \/ j > Len(objs)} ELSE {}
         IN /\ objs' = IF r.res = "unmodelled" \/ bad # {} THEN Resync(Ev.views, r.objs) ELSE r.objs
            /\ (r.res # "unmodelled" /\ bad # {}) =>
                   Reject(l, [cls |-> "step", op |-> Ev.op.k, model |-> r.res, impl |-> Ev.res, fields |-> bad])
            /\ (r.res # "unmodelled" /\ bad = {}) =>
                   /\ OracleOK(Ev.op)
                   /\ \A j \in touched : HashesOK(r.objs[j], Ev.views[j])
                   /\ (Ev.op.k = "sign" /\ ~SignedOK(objs[o], r.objs[o], Ev.op)) => Reject(l, [cls |-> "step", op |-> "sign", fields |-> {[f |-> "shape", who |-> "target"]}])

Init == l = 1 /\ objs = <<NewTx>>
Next == /\ l <= Len(Trace)
        /\ l' = l + 1
        /\ Mark(l)
        /\ \/ Begin
           \/ Op
           \/ (Ev.ev \notin {"begin", "op"} /\ objs' = objs /\ Reject(l, [cls |-> "any", ev |-> Ev.ev]))
Spec == Init /\ [][Next]_<<l, objs>>
=================================================================================
